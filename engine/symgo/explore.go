package symgo

import (
	"fmt"
	"os"
	"sort"
	"strings"
	"sync"
	"time"

	"golang.org/x/tools/go/ssa"

	"verif/sym"
)

// Explorer runs the concolic generational search over one harness function.
type Explorer struct {
	W       *World
	Fn      *ssa.Function
	Cfg     *Config
	Workers int
	Solver  sym.SolverSpec
	// Limits
	MaxPaths    int
	Deadline    time.Time
	ConcLimit   int // max alternative values enumerated per concretisation
	SampleEvery int // keep every n-th query as stand-alone SMT text for the cross-solver diff
	// OnPath is called (serialised) for every finished run.
	OnPath func(r *RunResult)

	cache     sync.Map // query text -> cachedAns
	sampleCtr int

	mu      sync.Mutex
	cond    *sync.Cond
	queue   []*workItem
	active  int
	stopped bool

	Stats ExploreStats
}

type ExploreStats struct {
	Paths        int // finished runs (all statuses except assume-fail)
	AssumeFailed int
	ByStatus     map[string]int
	TRel, TPrint, TQuery time.Duration
	RunTime      time.Duration
	ProcTime     time.Duration
	Queries      int
	CacheHits    int
	Trivial      int // flips skipped because the literal already occurs in the prefix
	Sat          int
	Unsat        int
	Unknown      int
	SolverErrors int
	Dropped      int // inconclusive items (unknown/error/limit)
	DropReasons  map[string]int
	Divergences  int
	SolverTime   time.Duration
	Steps        int64
	MaxTrace     int
	Incomplete   bool // stopped by MaxPaths/Deadline
	Samples      []string // stand-alone SMT queries (sampled)
	SampleAns    []string
	Wall         time.Duration
	Fns          map[string]int
	Notes        map[string]int
	Reached      map[string]int
}

type workItem struct {
	inputs map[string]uint64
	bound  int
	prefix []uint64 // expected literal hashes for records [0,bound)
	dbg    []string
}

func (e *Explorer) push(it *workItem) {
	e.mu.Lock()
	e.queue = append(e.queue, it)
	e.mu.Unlock()
	e.cond.Signal()
}

func (e *Explorer) pop() *workItem {
	e.mu.Lock()
	defer e.mu.Unlock()
	for {
		if e.stopped {
			return nil
		}
		if n := len(e.queue); n > 0 {
			it := e.queue[n-1]
			e.queue = e.queue[:n-1]
			e.active++
			return it
		}
		if e.active == 0 {
			e.cond.Broadcast()
			return nil
		}
		e.cond.Wait()
	}
}

func (e *Explorer) done() {
	e.mu.Lock()
	e.active--
	if e.active == 0 && len(e.queue) == 0 {
		e.cond.Broadcast()
	}
	e.mu.Unlock()
}

func (e *Explorer) drop(reason string) {
	e.mu.Lock()
	e.Stats.Dropped++
	e.Stats.DropReasons[reason]++
	e.mu.Unlock()
}

// Explore runs the search to completion (or limit).
func (e *Explorer) Explore(seedInputs map[string]uint64) error {
	if e.Workers <= 0 {
		e.Workers = 1
	}
	if e.ConcLimit <= 0 {
		e.ConcLimit = 300
	}
	e.cond = sync.NewCond(&e.mu)
	e.Stats.ByStatus = map[string]int{}
	e.Stats.DropReasons = map[string]int{}
	e.Stats.Fns = map[string]int{}
	e.Stats.Notes = map[string]int{}
	e.Stats.Reached = map[string]int{}
	t0 := time.Now()
	if seedInputs == nil {
		seedInputs = map[string]uint64{}
	}
	e.queue = []*workItem{{inputs: seedInputs}}
	var wg sync.WaitGroup
	errs := make(chan error, e.Workers)
	for i := 0; i < e.Workers; i++ {
		wg.Add(1)
		go func(id int) {
			defer wg.Done()
			sol, err := sym.StartSolver(e.Solver)
			if err == nil && Debug && id == 0 {
				lf, _ := os.Create("/tmp/z3log.smt2")
				sol.Log = lf
			}
			if err != nil {
				errs <- err
				e.mu.Lock()
				e.stopped = true
				e.mu.Unlock()
				e.cond.Broadcast()
				return
			}
			defer func() {
				e.mu.Lock()
				e.Stats.Queries += sol.Queries
				e.Stats.Sat += sol.Sat
				e.Stats.Unsat += sol.Unsat
				e.Stats.Unknown += sol.Unknown
				e.Stats.SolverErrors += sol.Errors
				e.Stats.SolverTime += sol.Time
				e.mu.Unlock()
				sol.Close()
			}()
			for {
				it := e.pop()
				if it == nil {
					return
				}
				e.process(it, sol, id)
				e.done()
			}
		}(i)
	}
	wg.Wait()
	e.Stats.Wall = time.Since(t0)
	select {
	case err := <-errs:
		return err
	default:
	}
	return nil
}

func (e *Explorer) process(it *workItem, sol *sym.Solver, id int) {
	tr0 := time.Now()
	in := NewInterp(e.W, e.Cfg, it.inputs)
	res := in.Run(e.Fn, nil)
	e.mu.Lock()
	e.Stats.RunTime += time.Since(tr0)
	e.mu.Unlock()
	defer func(t time.Time) {
		e.mu.Lock()
		e.Stats.ProcTime += time.Since(t)
		e.mu.Unlock()
	}(tr0)

	// divergence check: the run must reproduce the expected prefix
	diverged := false
	if len(res.Trace) < len(it.prefix) {
		diverged = true
	} else {
		for i, h := range it.prefix {
			if res.Trace[i].Lit.H != h {
				diverged = true
				if Debug && it.dbg != nil {
					fmt.Printf("DIVERGE at %d/%d: expected %s\n   got %s (kind %d tag %s)\n inputs=%v\n", i, len(it.prefix), it.dbg[i], res.Trace[i].Lit, res.Trace[i].Kind, res.Trace[i].Tag, it.inputs)
				}
				break
			}
		}
	}

	e.mu.Lock()
	if diverged {
		e.Stats.Divergences++
		e.Stats.Dropped++
		e.Stats.DropReasons["divergence"]++
	}
	if res.Status == StAssumeFail {
		e.Stats.AssumeFailed++
	} else {
		e.Stats.Paths++
		e.Stats.ByStatus[res.Status.String()]++
	}
	e.Stats.Steps += int64(res.Steps)
	if len(res.Trace) > e.Stats.MaxTrace {
		e.Stats.MaxTrace = len(res.Trace)
	}
	for f, n := range res.FnsSeen {
		e.Stats.Fns[f.String()] += n
	}
	for k, n := range res.Notes {
		e.Stats.Notes[k] += n
	}
	for k := range res.Reached {
		e.Stats.Reached[k]++
	}
	if res.Status == StUnsupported || res.Status == StEngineError {
		e.Stats.Dropped++
		e.Stats.DropReasons[res.Status.String()+": "+res.Msg]++
	}
	if e.OnPath != nil && res.Status != StAssumeFail {
		e.OnPath(res)
	}
	if (e.MaxPaths > 0 && e.Stats.Paths >= e.MaxPaths) || (!e.Deadline.IsZero() && time.Now().After(e.Deadline)) {
		e.Stats.Incomplete = true
		e.stopped = true
		e.cond.Broadcast()
	}
	stopped := e.stopped
	e.mu.Unlock()
	if diverged || stopped {
		return
	}
	e.expand(res, it, sol)
}

// varsOf returns the set of variable names of t (memoised per call site).
func varsOf(t *sym.Term, memo map[*sym.Term]map[string]bool) map[string]bool {
	if m, ok := memo[t]; ok {
		return m
	}
	m := map[string]bool{}
	if t.Op == sym.OpVar {
		m[t.Name] = true
	}
	for _, a := range t.Args {
		for k := range varsOf(a, memo) {
			m[k] = true
		}
	}
	memo[t] = m
	return m
}

type cachedAns struct {
	ans   string
	model map[string]uint64
}

// expand issues one query per branch record beyond the item's bound. Each query
// contains only the prefix constraints that share variables (transitively)
// with the flipped literal (constraint independence); the remaining variables
// keep the values of the parent run, which already satisfy the rest.
func (e *Explorer) expand(res *RunResult, it *workItem, sol *sym.Solver) {
	tr := res.Trace
	if it.bound >= len(tr) {
		return
	}
	memo := map[*sym.Term]map[string]bool{}
	hashes := make([]uint64, len(tr))
	for i := range tr {
		hashes[i] = tr[i].Lit.H
	}
	notH := func(t *sym.Term) uint64 { return res.St.Not(t).H }

	newItem := func(i int, model map[string]uint64, flipHash uint64) {
		inputs := make(map[string]uint64, len(it.inputs)+len(model))
		for k, v := range it.inputs {
			inputs[k] = v
		}
		for k, v := range model {
			inputs[k] = v
		}
		prefix := make([]uint64, i+1)
		copy(prefix, hashes[:i])
		prefix[i] = flipHash
		var dbg []string
		if Debug {
			for j := 0; j < i; j++ {
				dbg = append(dbg, tr[j].Lit.String())
			}
			dbg = append(dbg, "FLIP OF "+tr[i].Lit.String())
		}
		e.push(&workItem{inputs: inputs, bound: i + 1, prefix: prefix, dbg: dbg})
	}

	// relevant prefix constraints for a set of seed variables
	relevant := func(i int, seed map[string]bool) ([]*sym.Term, map[string]bool) {
		S := map[string]bool{}
		for k := range seed {
			S[k] = true
		}
		used := make([]bool, i)
		changed := true
		for changed {
			changed = false
			for j := 0; j < i; j++ {
				if used[j] {
					continue
				}
				vs := varsOf(tr[j].Lit, memo)
				hit := false
				for k := range vs {
					if S[k] {
						hit = true
						break
					}
				}
				if hit {
					used[j] = true
					changed = true
					for k := range vs {
						S[k] = true
					}
				}
			}
		}
		var out []*sym.Term
		for j := 0; j < i; j++ {
			if used[j] {
				out = append(out, tr[j].Lit)
			}
		}
		return out, S
	}

	ask := func(i int, goal []*sym.Term, extraText func(pr *sym.Printer) string, seedVars map[string]bool, onSat func(map[string]uint64)) {
		tA := time.Now()
		rel, S := relevant(i, seedVars)
		tB := time.Now()
		names := make([]string, 0, len(S))
		for k := range S {
			names = append(names, k)
		}
		sort.Strings(names)
		vars := make([]*sym.Term, len(names))
		for k, n := range names {
			vars[k] = res.St.Vars[n]
		}
		pr := sym.NewPrinter("t!")
		var sb strings.Builder
		for _, c := range append(append([]*sym.Term{}, rel...), goal...) {
			r := pr.Ref(c)
			sb.WriteString(pr.Take())
			sb.WriteString("(assert " + r + ")\n")
		}
		if extraText != nil {
			sb.WriteString(extraText(pr))
		}
		text := sb.String()
		tC := time.Now()
		e.query(sol, vars, text, onSat)
		tD := time.Now()
		e.mu.Lock()
		e.Stats.TRel += tB.Sub(tA)
		e.Stats.TPrint += tC.Sub(tB)
		e.Stats.TQuery += tD.Sub(tC)
		e.mu.Unlock()
		if e.SampleEvery > 0 {
			e.mu.Lock()
			e.sampleCtr++
			take := e.sampleCtr%e.SampleEvery == 0 && len(e.Stats.Samples) < 400
			e.mu.Unlock()
			if take {
				var decl strings.Builder
				for _, v := range vars {
					fmt.Fprintf(&decl, "(declare-const %s %s)\n", v.Name, sym.SortStr(v.W))
				}
				e.mu.Lock()
				e.Stats.Samples = append(e.Stats.Samples, decl.String()+text+"(check-sat)\n")
				e.mu.Unlock()
			}
		}
	}

	seen := map[uint64]bool{}
	for i := 0; i < it.bound && i < len(tr); i++ {
		seen[tr[i].Lit.H] = true
	}
	for i := it.bound; i < len(tr); i++ {
		r := tr[i]
		if seen[r.Lit.H] {
			// the same literal already holds on this path: its negation is unsatisfiable
			e.mu.Lock()
			e.Stats.Trivial++
			e.mu.Unlock()
			continue
		}
		seen[r.Lit.H] = true
		switch r.Kind {
		case RecAssume:
			// Only the failing side (last record of an assume-failed run) is flipped.
			if res.Status == StAssumeFail && i == len(tr)-1 {
				neg := res.St.Not(r.Lit)
				ask(i, []*sym.Term{neg}, nil, varsOf(neg, memo), func(m map[string]uint64) { newItem(i, m, neg.H) })
			}
		case RecConcretize:
			excluded := []uint64{r.Val}
			for n := 0; ; n++ {
				if n >= e.ConcLimit {
					e.drop("concretisation limit")
					break
				}
				found := false
				var goal []*sym.Term
				for _, v := range excluded {
					goal = append(goal, res.St.Not(res.St.Eq(r.X, res.St.Const(r.X.W, v))))
				}
				ask(i, goal, nil, varsOf(r.X, memo), func(m map[string]uint64) {
					full := map[string]uint64{}
					for k, v := range it.inputs {
						full[k] = v
					}
					for k, v := range m {
						full[k] = v
					}
					v := sym.Eval(r.X, full)
					excluded = append(excluded, v)
					found = true
					newItem(i, m, res.St.Eq(r.X, res.St.Const(r.X.W, v)).H)
				})
				if !found {
					break
				}
			}
		default:
			neg := res.St.Not(r.Lit)
			ask(i, []*sym.Term{neg}, nil, varsOf(neg, memo), func(m map[string]uint64) { newItem(i, m, notH(r.Lit)) })
		}
	}
}

// query decides one self-contained set of assertions (text) over vars, using
// the shared answer cache first.
func (e *Explorer) query(sol *sym.Solver, vars []*sym.Term, text string, onSat func(map[string]uint64)) {
	if c, ok := e.cache.Load(text); ok {
		ca := c.(cachedAns)
		e.mu.Lock()
		e.Stats.CacheHits++
		e.mu.Unlock()
		if ca.ans == "sat" {
			onSat(ca.model)
		}
		return
	}
	// declare variables this solver process has not seen yet
	var decl []*sym.Term
	for _, v := range vars {
		if !sol.Declared[v.Name] {
			sol.Declared[v.Name] = true
			decl = append(decl, v)
		}
	}
	t0 := time.Now()
	sol.Declare(decl)
	sol.Send("(push 1)\n" + text)
	if Debug {
		fmt.Printf("send %.3fs len=%d\n", time.Since(t0).Seconds(), len(text))
	}
	tq := time.Now()
	ans := sol.CheckSat()
	if d := time.Since(tq); Debug && d > 300*time.Millisecond {
		fmt.Printf("SLOW QUERY %.2fs ans=%s len=%d\n%s\n", d.Seconds(), ans, len(text), text)
	}
	switch ans {
	case "sat":
		tg := time.Now()
		m, err := sol.GetValues(vars)
		if Debug {
			fmt.Printf("getvalues %.3fs\n", time.Since(tg).Seconds())
		}
		if err != nil {
			e.drop("get-value: " + err.Error())
		} else {
			e.cache.Store(text, cachedAns{ans: "sat", model: m})
			onSat(m)
		}
	case "unsat":
		e.cache.Store(text, cachedAns{ans: "unsat"})
	case "unknown":
		e.drop("solver unknown")
	default:
		e.drop("solver " + ans)
	}
	tp := time.Now()
	sol.Send("(pop 1)\n")
	if Debug {
		fmt.Printf("pop %.3fs check %.3fs\n", time.Since(tp).Seconds(), tp.Sub(tq).Seconds())
	}
}

// Summary renders stats.
func (s *ExploreStats) Summary() string {
	var sb strings.Builder
	fmt.Fprintf(&sb, "paths=%d assume-failed=%d trivial=%d cachehits=%d queries=%d (sat %d unsat %d unknown %d err %d) rel=%.1fs print=%.1fs query=%.1fs run=%.1fs proc=%.1fs dropped=%d divergences=%d steps=%d maxtrace=%d solver=%.2fs wall=%.2fs incomplete=%v",
		s.Paths, s.AssumeFailed, s.Trivial, s.CacheHits, s.Queries, s.Sat, s.Unsat, s.Unknown, s.SolverErrors, s.TRel.Seconds(), s.TPrint.Seconds(), s.TQuery.Seconds(), s.RunTime.Seconds(), s.ProcTime.Seconds(), s.Dropped, s.Divergences, s.Steps, s.MaxTrace, s.SolverTime.Seconds(), s.Wall.Seconds(), s.Incomplete)
	keys := []string{}
	for k := range s.ByStatus {
		keys = append(keys, k)
	}
	sort.Strings(keys)
	for _, k := range keys {
		fmt.Fprintf(&sb, " %s=%d", k, s.ByStatus[k])
	}
	if len(s.DropReasons) > 0 {
		fmt.Fprintf(&sb, "\n  drops:")
		for k, n := range s.DropReasons {
			fmt.Fprintf(&sb, "\n    %d x %s", n, k)
		}
	}
	return sb.String()
}
