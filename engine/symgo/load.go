package symgo

import (
	"fmt"
	"go/token"
	"os"
	"path/filepath"
	"strings"

	"golang.org/x/tools/go/packages"
	"golang.org/x/tools/go/ssa"
	"golang.org/x/tools/go/ssa/ssautil"
)

const RepoModule = "github.com/jsightapi/jsight-api-core"

// LoadOpts describes what to load.
type LoadOpts struct {
	RepoDir    string            // /repo
	ShimDir    string            // module with replace => RepoDir
	HarnessDir string            // /verif/harness: <pkg>/zz_verif_*.go are overlaid into RepoDir/<pkg>/
	Extra      map[string][]byte // additional overlay files (absolute path -> content)
	Tags       []string
}

// Loaded is the result of loading.
type Loaded struct {
	World    *World
	Pkgs     map[string]*ssa.Package // by import path
	Overlay  map[string][]byte
	Fset     *token.FileSet
	Initial  []*packages.Package
}

// BuildOverlay maps harness files into the repository tree.
func BuildOverlay(opts LoadOpts) (map[string][]byte, error) {
	ov := map[string][]byte{}
	if opts.HarnessDir != "" {
		err := filepath.Walk(opts.HarnessDir, func(p string, info os.FileInfo, err error) error {
			if err != nil {
				return err
			}
			if info.IsDir() || !strings.HasSuffix(p, ".go") {
				return nil
			}
			rel, _ := filepath.Rel(opts.HarnessDir, p)
			b, err := os.ReadFile(p)
			if err != nil {
				return err
			}
			ov[filepath.Join(opts.RepoDir, rel)] = b
			return nil
		})
		if err != nil {
			return nil, err
		}
	}
	for k, v := range opts.Extra {
		ov[k] = v
	}
	return ov, nil
}

// Load type-checks the repository (current working tree) with the harness overlay
// and builds SSA for it and all dependencies.
func Load(opts LoadOpts) (*Loaded, error) {
	ov, err := BuildOverlay(opts)
	if err != nil {
		return nil, err
	}
	// test files must not be loaded: overlay only non-test harness files
	for k := range ov {
		if strings.HasSuffix(k, "_test.go") {
			delete(ov, k)
		}
	}
	// keep the shim's go.sum in step with the repository's
	if b, err := os.ReadFile(filepath.Join(opts.RepoDir, "go.sum")); err == nil {
		os.WriteFile(filepath.Join(opts.ShimDir, "go.sum"), b, 0o644)
	}
	fset := token.NewFileSet()
	flags := []string{"-mod=mod"}
	if len(opts.Tags) > 0 {
		flags = append(flags, "-tags="+strings.Join(opts.Tags, ","))
	}
	cfg := &packages.Config{
		Mode:       packages.LoadAllSyntax,
		Dir:        opts.ShimDir,
		Fset:       fset,
		Overlay:    ov,
		BuildFlags: flags,
		Env:        append(os.Environ(), "GOFLAGS=-mod=mod", "GOPROXY=off", "GOSUMDB=off", "GOTOOLCHAIN=local", "GOWORK=off"),
	}
	initial, err := packages.Load(cfg, RepoModule+"/kit", RepoModule+"/core", RepoModule+"/scanner", RepoModule+"/directive", RepoModule+"/jerr", RepoModule+"/catalog")
	if err != nil {
		return nil, err
	}
	var errs []string
	packages.Visit(initial, nil, func(p *packages.Package) {
		for _, e := range p.Errors {
			errs = append(errs, e.Error())
		}
	})
	if len(errs) > 0 {
		if len(errs) > 20 {
			errs = errs[:20]
		}
		return nil, fmt.Errorf("load errors:\n%s", strings.Join(errs, "\n"))
	}
	prog, _ := ssautil.AllPackages(initial, ssa.InstantiateGenerics|ssa.SanityCheckFunctions&0)
	prog.Build()
	w := NewWorld(prog, fset)
	l := &Loaded{World: w, Pkgs: map[string]*ssa.Package{}, Overlay: ov, Fset: fset, Initial: initial}
	for _, p := range prog.AllPackages() {
		l.Pkgs[p.Pkg.Path()] = p
	}
	for _, path := range DefaultInitPkgs {
		w.InitPkgs[path] = true
	}
	for path := range l.Pkgs {
		if strings.HasPrefix(path, RepoModule) || strings.HasPrefix(path, "github.com/jsightapi/jsight-schema-core") {
			w.InitPkgs[path] = true
		}
	}
	return l, nil
}

// DefaultInitPkgs: dependency packages whose initialisers are interpreted.
var DefaultInitPkgs = []string{
	"unicode/utf8", "bytes", "strings", "hash/fnv", "strconv", "path/filepath", "internal/filepathlite", "path",
	"github.com/jsightapi/jsight-schema-core/bytes",
	"github.com/jsightapi/jsight-schema-core/fs",
	"github.com/jsightapi/jsight-schema-core/errs",
}

// Func finds a package-level function.
func (l *Loaded) Func(pkgPath, name string) *ssa.Function {
	p := l.Pkgs[pkgPath]
	if p == nil {
		return nil
	}
	return p.Func(name)
}
