// Package symgo: a concolic interpreter for go/ssa (concrete shadow + optional
// SMT term on every scalar), written for checking jsight-api-core.
package symgo

import (
	"fmt"
	"go/types"
	"strings"

	"golang.org/x/tools/go/ssa"

	"verif/sym"
)

// Value is any interpreter value:
//
//	Sc                 bool and all integer kinds (canonical 64-bit pattern + optional term)
//	float64            float32/float64
//	complex128         complex
//	Str                string (concrete length, optional per-byte terms)
//	Struct, Array      value aggregates (copied on load/store)
//	[]Value            slice (shares backing array)
//	*Value             pointer
//	*Map               map
//	Iface              interface value
//	*Closure           function value
//	*ssa.Builtin       builtin function value
//	Tuple              multi-value
//	*Iter              range iterator
type Value interface{}

type Sc struct {
	C uint64
	T *sym.Term
}

type Str struct {
	S string
	T []*sym.Term // nil, or len(S) entries (nil entry = concrete byte)
}

type Struct []Value
type Array []Value
type Tuple []Value

type Iface struct {
	T types.Type
	V Value
}

type Closure struct {
	Fn  *ssa.Function
	Env []Value
}

type Map struct {
	Keys []Value
	Vals []Value
	KT   types.Type
	// idx accelerates lookups of fully concrete hashable keys.
	idx     map[interface{}]int
	symKeys int // number of keys that are not natively hashable/concrete
}

// Chan models a buffered channel in the fork-join pattern (see Interp.recv): goroutines
// run to completion when they are started, what they send is queued, and the order in
// which the results of DIFFERENT goroutines are received is a symbolic permutation.
type Chan struct {
	cap     int
	buf     []Value
	senders []int // goroutine id of each queued value (0 = the spawning code itself)
	settled int   // buf[:settled] has been put in its (symbolic) order already
}

type Iter struct {
	m    *Map
	keys []Value
	vals []Value
	s    Str
	pos  int
	isS  bool
}

func mkBool(b bool) Sc {
	if b {
		return Sc{C: 1}
	}
	return Sc{C: 0}
}

func (s Str) Len() int { return len(s.S) }

func (s Str) Sym() bool { return s.T != nil }

func (s Str) ByteAt(i int) Sc {
	if s.T != nil && s.T[i] != nil {
		return Sc{C: uint64(s.S[i]), T: s.T[i]}
	}
	return Sc{C: uint64(s.S[i])}
}

func (s Str) Slice(lo, hi int) Str {
	r := Str{S: s.S[lo:hi]}
	if s.T != nil {
		any := false
		for _, t := range s.T[lo:hi] {
			if t != nil {
				any = true
				break
			}
		}
		if any {
			r.T = s.T[lo:hi]
		}
	}
	return r
}

func concatStr(a, b Str) Str {
	r := Str{S: a.S + b.S}
	if a.T != nil || b.T != nil {
		r.T = make([]*sym.Term, len(r.S))
		if a.T != nil {
			copy(r.T, a.T)
		}
		if b.T != nil {
			copy(r.T[len(a.S):], b.T)
		}
	}
	return r
}

func strFromBytes(bs []Value) Str {
	var sb strings.Builder
	var ts []*sym.Term
	for i, v := range bs {
		sc := v.(Sc)
		sb.WriteByte(byte(sc.C))
		if sc.T != nil {
			if ts == nil {
				ts = make([]*sym.Term, len(bs))
			}
			ts[i] = sc.T
		}
	}
	return Str{S: sb.String(), T: ts}
}

func bytesFromStr(s Str) []Value {
	out := make([]Value, len(s.S))
	for i := range out {
		out[i] = s.ByteAt(i)
	}
	return out
}

// copyVal copies value aggregates (Struct, Array) deeply; everything else is shared.
func copyVal(v Value) Value {
	switch v := v.(type) {
	case Struct:
		n := make(Struct, len(v))
		for i, e := range v {
			n[i] = copyVal(e)
		}
		return n
	case Array:
		n := make(Array, len(v))
		for i, e := range v {
			n[i] = copyVal(e)
		}
		return n
	}
	return v
}

// typeInfo about scalar kinds.
type scKind struct {
	bits   uint8
	signed bool
	isBool bool
}

func basicKind(t types.Type) (scKind, bool) {
	b, ok := t.Underlying().(*types.Basic)
	if !ok {
		return scKind{}, false
	}
	switch b.Kind() {
	case types.Bool, types.UntypedBool:
		return scKind{isBool: true}, true
	case types.Int8:
		return scKind{bits: 8, signed: true}, true
	case types.Int16:
		return scKind{bits: 16, signed: true}, true
	case types.Int32, types.UntypedRune:
		return scKind{bits: 32, signed: true}, true
	case types.Int64, types.Int, types.UntypedInt:
		return scKind{bits: 64, signed: true}, true
	case types.Uint8:
		return scKind{bits: 8}, true
	case types.Uint16:
		return scKind{bits: 16}, true
	case types.Uint32:
		return scKind{bits: 32}, true
	case types.Uint64, types.Uint, types.Uintptr:
		return scKind{bits: 64}, true
	}
	return scKind{}, false
}

func canon(k scKind, v uint64) uint64 {
	if k.isBool {
		return v & 1
	}
	if k.bits >= 64 {
		return v
	}
	if k.signed {
		sh := 64 - uint(k.bits)
		return uint64(int64(v<<sh) >> sh)
	}
	return v & ((uint64(1) << k.bits) - 1)
}

func isFloat(t types.Type) bool {
	b, ok := t.Underlying().(*types.Basic)
	return ok && b.Info()&types.IsFloat != 0
}

func isString(t types.Type) bool {
	b, ok := t.Underlying().(*types.Basic)
	return ok && b.Info()&types.IsString != 0
}

// zero returns the zero value of type t.
func zero(t types.Type) Value {
	switch u := t.Underlying().(type) {
	case *types.Basic:
		switch {
		case u.Kind() == types.UnsafePointer:
			return (*Value)(nil)
		case u.Info()&types.IsString != 0:
			return Str{}
		case u.Info()&types.IsFloat != 0:
			return float64(0)
		case u.Info()&types.IsComplex != 0:
			return complex128(0)
		case u.Kind() == types.UntypedNil:
			return nil
		default:
			return Sc{}
		}
	case *types.Struct:
		s := make(Struct, u.NumFields())
		for i := range s {
			s[i] = zero(u.Field(i).Type())
		}
		return s
	case *types.Array:
		a := make(Array, u.Len())
		for i := range a {
			a[i] = zero(u.Elem())
		}
		return a
	case *types.Pointer:
		return (*Value)(nil)
	case *types.Slice:
		return []Value(nil)
	case *types.Map:
		return (*Map)(nil)
	case *types.Interface:
		return Iface{}
	case *types.Signature:
		return (*Closure)(nil)
	case *types.Tuple:
		if u.Len() == 1 {
			return zero(u.At(0).Type())
		}
		tt := make(Tuple, u.Len())
		for i := range tt {
			tt[i] = zero(u.At(i).Type())
		}
		return tt
	case *types.Chan:
		return (*Chan)(nil)
	}
	panic(fmt.Sprintf("zero: unsupported type %s (%T)", t, t.Underlying()))
}

// hashKey returns a natively hashable key for fully concrete values of
// comparable types (used to accelerate map lookups); ok=false otherwise.
func hashKey(v Value) (interface{}, bool) {
	switch v := v.(type) {
	case Sc:
		if v.T != nil {
			return nil, false
		}
		return v.C, true
	case Str:
		if v.T != nil {
			return nil, false
		}
		return v.S, true
	case *Value:
		return v, true
	case float64:
		return v, true
	}
	return nil, false
}

func (m *Map) Len() int { return len(m.Keys) }

func newMap(kt types.Type) *Map {
	return &Map{KT: kt, idx: map[interface{}]int{}}
}

// assign stores v into *dst. Aggregates are copied element-wise INTO the
// existing backing storage so that interior pointers (&s.f, &a[i]) taken
// earlier stay valid, as in Go.
func assign(dst *Value, v Value) {
	switch v := v.(type) {
	case Struct:
		if d, ok := (*dst).(Struct); ok && len(d) == len(v) {
			for i := range v {
				assign(&d[i], v[i])
			}
			return
		}
	case Array:
		if d, ok := (*dst).(Array); ok && len(d) == len(v) {
			for i := range v {
				assign(&d[i], v[i])
			}
			return
		}
	}
	*dst = copyVal(v)
}
