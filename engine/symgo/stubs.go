package symgo

import (
	"unicode/utf8"

	"golang.org/x/tools/go/ssa"

	"verif/sym"
)

// Contract stubs (each one is part of the claim of a check that enables it).

const (
	FnNewLocation = "github.com/jsightapi/jsight-api-core/jerr.NewLocation"
	FnDecodeRune  = "(github.com/jsightapi/jsight-schema-core/bytes.Bytes).DecodeRune"
)

// fileContent returns the data slice of an *fs.File value.
func fileContent(in *Interp, f Value) ([]Value, bool) {
	p, _ := f.(*Value)
	if p == nil {
		return nil, false
	}
	st := (*p).(Struct)       // fs.File{name, content}
	data, _ := st[1].(Struct)[0].([]Value) // bytes.Bytes{data, nl}
	return data, true
}

// StubNewLocation implements the contract proved by check C07-a for
// jerr.NewLocation(f, i): it panics iff f == nil, len(content) == 0 or
// i > len(content); otherwise it returns a Location with File = f, Index = i
// and opaque (concrete placeholder) Line / Column / Quote.
func StubNewLocation(in *Interp, fn *ssa.Function, args []Value) Value {
	data, ok := fileContent(in, args[0])
	if !ok {
		in.rtPanic("invalid memory address or nil pointer dereference")
	}
	idx := args[1].(Sc)
	n := uint64(len(data))
	bad := mkBool(n == 0 || idx.C > n)
	if idx.T != nil && !idx.T.IsConst() && n != 0 {
		bad.T = in.St.Cmp(sym.OpUlt, in.St.Const(64, n), idx.T)
	}
	if in.branch(bad, RecCheck, "NewLocation-contract") {
		in.rtPanic("index out of range (jerr.NewLocation contract: empty content or index beyond the end)")
	}
	// Location{File, Quote, Index, Line, Column}
	return Struct{args[0], Str{}, idx, Sc{}, Sc{}}
}

// StubDecodeRune: the rune is only used to render error messages; it is
// computed from the concrete shadow (message text is outside the claim).
func StubDecodeRune(in *Interp, fn *ssa.Function, args []Value) Value {
	b := args[0].(Struct)
	data, _ := b[0].([]Value)
	s := strFromBytes(data)
	end := len(s.S)
	if end > 4 {
		end = 4
	}
	r, _ := utf8.DecodeRuneInString(s.S[:end])
	if s.T != nil {
		in.Notes["imprecise:DecodeRune-on-symbolic-bytes"]++
	}
	return Sc{C: canon(scKind{bits: 32, signed: true}, uint64(r))}
}

// NamedStubs: stub groups selectable by name from check jobs.
var NamedStubs = map[string]map[string]ExtFn{}
