package symgo

import (
	"unicode/utf8"

	"golang.org/x/tools/go/ssa"

)

// Contract stubs (each one is part of the claim of a check that enables it).

const (
	FnNewLocation = "github.com/jsightapi/jsight-api-core/jerr.NewLocation"
	FnDecodeRune  = "(github.com/jsightapi/jsight-schema-core/bytes.Bytes).DecodeRune"
)

// fileContent returns the data slice of an *fs.File value.
func fileContent(in *Interp, f Value) ([]Value, bool) {
	p, _ := f.(*Value)
	if p == nil {
		return nil, false
	}
	st := (*p).(Struct)       // fs.File{name, content}
	data, _ := st[1].(Struct)[0].([]Value) // bytes.Bytes{data, nl}
	return data, true
}

// StubNewLocation implements the contract decided by check C07 (job "location
// contract") for jerr.NewLocation(f, i): it panics iff f == nil; otherwise it
// returns a Location with File = f, Index = i and opaque (concrete placeholder)
// Line / Column / Quote.
func StubNewLocation(in *Interp, fn *ssa.Function, args []Value) Value {
	if _, ok := fileContent(in, args[0]); !ok {
		in.rtPanic("invalid memory address or nil pointer dereference")
	}
	// Location{File, Quote, Index, Line, Column}
	return Struct{args[0], Str{}, args[1], Sc{}, Sc{}}
}

// StubDecodeRune: the rune is only used to render error messages; it is
// computed from the concrete shadow (message text is outside the claim).
func StubDecodeRune(in *Interp, fn *ssa.Function, args []Value) Value {
	b := args[0].(Struct)
	data, _ := b[0].([]Value)
	s := strFromBytes(data)
	end := len(s.S)
	if end > 4 {
		end = 4
	}
	r, _ := utf8.DecodeRuneInString(s.S[:end])
	if s.T != nil {
		in.Notes["imprecise:DecodeRune-on-symbolic-bytes"]++
	}
	return Sc{C: canon(scKind{bits: 32, signed: true}, uint64(r))}
}

// NamedStubs: stub groups selectable by name from check jobs.
var NamedStubs = map[string]map[string]ExtFn{}
