package symgo

import (
	"bytes"
	"encoding/json"
	"fmt"
	"go/types"
	"math"
	"net/mail"
	"os"
	"path"
	"path/filepath"
	"regexp"
	"sort"
	"strconv"
	"strings"
	"sync"
	"time"
	"unicode/utf8"

	"github.com/lucasjones/reggen"
	"golang.org/x/tools/go/ssa"

	"verif/sym"
)

var externals map[string]ExtFn
var globalModels map[string]func(in *Interp, g *ssa.Global) Value

func init() {
	externals = map[string]ExtFn{
		"fmt.Sprintf":                      extSprintf,
		"fmt.Errorf":                       extErrorf,
		"fmt.Sprint":                       extSprint,
		"errors.New":                       extErrorsNew,
		"errors.Is":                        extErrorsIs,
		"errors.As":                        extErrorsAs,
		"errors.Unwrap":                    extErrorsUnwrap,
		"strings.Index":                    extIndex,
		"bytes.Index":                      extIndex,
		"strings.IndexByte":                extIndexByte,
		"bytes.IndexByte":                  extIndexByte,
		"internal/bytealg.IndexByte":       extIndexByte,
		"internal/bytealg.IndexByteString": extIndexByte,
		"strings.Count":                    extCount,
		"bytes.Count":                      extCount,
		"bytes.Equal":                      extBytesEqual,
		"bytes.Compare":                    extBytesCompare,
		"strings.Compare":                  extBytesCompare,
		"internal/bytealg.MakeNoZero":      extMakeNoZero,
		"(*strings.Builder).WriteString":   extBuilderWriteString,
		"(*strings.Builder).WriteByte":     extBuilderWriteByte,
		"(*strings.Builder).Write":         extBuilderWrite,
		"(*strings.Builder).WriteRune":     extBuilderWriteRune,
		"(*strings.Builder).String":        extBuilderString,
		"(*strings.Builder).Len":           extBuilderLen,
		"(*strings.Builder).Grow":          extNop,
		"(*strings.Builder).Reset":         extBuilderReset,
		"strconv.FormatUint":               extFormatUint,
		"strconv.FormatInt":                extFormatInt,
		"strconv.Itoa":                     extItoa,
		"strconv.cloneString":              extIdentity,
		"internal/stringslite.Clone":       extIdentity,
		"strings.Clone":                    extIdentity,
		"strconv.Quote":                    extQuote,
		"(*sync.Once).Do":                  extOnceDo,
		"(*sync.Pool).Get":                 extPoolGet,
		"(*sync.Pool).Put":                 extPoolPut,
		"(*sync.Mutex).Lock":               extNop,
		"(*sync.Mutex).Unlock":             extNop,
		"(*sync.RWMutex).Lock":             extNop,
		"(*sync.RWMutex).Unlock":           extNop,
		"(*sync.RWMutex).RLock":            extNop,
		"(*sync.RWMutex).RUnlock":          extNop,
		// fork-join model: goroutines have finished when they are started, Wait never blocks
		"(*sync.WaitGroup).Add":  extNop,
		"(*sync.WaitGroup).Done": extNop,
		"(*sync.WaitGroup).Wait": extNop,
		"os.Stat":                extOsStat,
		"os.ReadFile":            extOsReadFile,
		"(*os.fileStat).IsDir":   extFileStatIsDir,
		"github.com/jsightapi/jsight-schema-core/reader.Read": extReaderRead,
		"runtime.KeepAlive":                         extNop,
		"sort.Slice":                                extSortSlice,
		"sort.SliceStable":                          extSortSlice,
		"unicode.IsSpace":                           extUnicodeIsSpace,
		"regexp.MustCompile":                        extRegexpMustCompile,
		"regexp.Compile":                            extRegexpCompile,
		"(*regexp.Regexp).Match":                    extRegexpMatch,
		"(*regexp.Regexp).MatchString":              extRegexpMatch,
		"(*regexp.Regexp).String":                   extRegexpString,
		"time.Parse":                                extTimeParse,
		"net/mail.ParseAddress":                     extMailParseAddress,
		"github.com/lucasjones/reggen.NewGenerator": extReggenNew,
		"(*github.com/lucasjones/reggen.Generator).SetSeed":  extReggenSetSeed,
		"(*github.com/lucasjones/reggen.Generator).Generate": extReggenGenerate,
		"encoding/json.Unmarshal":                            extJSONUnmarshal,
		"encoding/json.Marshal":                              extJSONMarshal,
		// floating point: concrete only (float64 values carry no terms)
		"math.Pow":   func(in *Interp, fn *ssa.Function, a []Value) Value { return math.Pow(a[0].(float64), a[1].(float64)) },
		"math.Abs":   func(in *Interp, fn *ssa.Function, a []Value) Value { return math.Abs(a[0].(float64)) },
		"math.Floor": func(in *Interp, fn *ssa.Function, a []Value) Value { return math.Floor(a[0].(float64)) },
		"math.Ceil":  func(in *Interp, fn *ssa.Function, a []Value) Value { return math.Ceil(a[0].(float64)) },
		"math.Trunc": func(in *Interp, fn *ssa.Function, a []Value) Value { return math.Trunc(a[0].(float64)) },
		"math.Round": func(in *Interp, fn *ssa.Function, a []Value) Value { return math.Round(a[0].(float64)) },
		"math.Mod":   func(in *Interp, fn *ssa.Function, a []Value) Value { return math.Mod(a[0].(float64), a[1].(float64)) },
		"math.Log10": func(in *Interp, fn *ssa.Function, a []Value) Value { return math.Log10(a[0].(float64)) },
		"math.Sqrt":  func(in *Interp, fn *ssa.Function, a []Value) Value { return math.Sqrt(a[0].(float64)) },
		"math.IsNaN": func(in *Interp, fn *ssa.Function, a []Value) Value { return mkBool(math.IsNaN(a[0].(float64))) },
		"math.IsInf": func(in *Interp, fn *ssa.Function, a []Value) Value {
			return mkBool(math.IsInf(a[0].(float64), int(int64(a[1].(Sc).C))))
		},
		"math.Float64bits": func(in *Interp, fn *ssa.Function, a []Value) Value { return Sc{C: math.Float64bits(a[0].(float64))} },
		"math.Float64frombits": func(in *Interp, fn *ssa.Function, a []Value) Value {
			return math.Float64frombits(in.concretize(a[0].(Sc), 64, "Float64frombits"))
		},
		"encoding/json.MarshalIndent":       extJSONMarshalIndent,
		"(*regexp.Regexp).ReplaceAllString": extRegexpReplaceAllString,
	}
	if false {
		externals["path/filepath.Join"] = extFilepathJoin
		externals["path/filepath.Dir"] = extFilepathDir
		externals["path/filepath.Clean"] = extFilepathClean
	}
	globalModels = map[string]func(in *Interp, g *ssa.Global) Value{
		"os.ErrNotExist":    func(in *Interp, g *ssa.Global) Value { return in.errNotExist() },
		"io/fs.ErrNotExist": func(in *Interp, g *ssa.Global) Value { return in.errNotExist() },
	}
}

func extIdentity(in *Interp, fn *ssa.Function, args []Value) Value { return args[0] }

func extNop(in *Interp, fn *ssa.Function, args []Value) Value { return zeroResults(fn) }

// ---------- errors ----------

func (in *Interp) newErrorString(msg Str) Value {
	p := new(Value)
	*p = Struct{msg}
	return Iface{T: in.W.ErrorsErrorString, V: p}
}

var notExistKey = "verif:ErrNotExist"

func (in *Interp) errNotExist() Value {
	if v, ok := in.side[notExistKey]; ok {
		return v
	}
	v := in.newErrorString(Str{S: "file does not exist"})
	in.setSide(notExistKey, v)
	return v
}

func (in *Interp) setSide(k string, v Value) {
	if in.side == nil {
		in.side = map[string]Value{}
	}
	in.side[k] = v
}

func extErrorsNew(in *Interp, fn *ssa.Function, args []Value) Value {
	return in.newErrorString(args[0].(Str))
}

func (in *Interp) errorUnwrap(e Iface) (Iface, bool) {
	if e.T == nil {
		return Iface{}, false
	}
	m := in.W.lookupMethod(e.T, "Unwrap", nil)
	if m == nil {
		return Iface{}, false
	}
	res := m.Signature.Results()
	if res.Len() != 1 {
		return Iface{}, false
	}
	if _, ok := res.At(0).Type().Underlying().(*types.Interface); !ok {
		return Iface{}, false
	}
	r := in.callFunction(m, []Value{e.V}, nil)
	ri, ok := r.(Iface)
	return ri, ok && ri.T != nil
}

func extErrorsUnwrap(in *Interp, fn *ssa.Function, args []Value) Value {
	r, ok := in.errorUnwrap(args[0].(Iface))
	if !ok {
		return Iface{}
	}
	return r
}

func extErrorsIs(in *Interp, fn *ssa.Function, args []Value) Value {
	err, target := args[0].(Iface), args[1].(Iface)
	if err.T == nil || target.T == nil {
		return mkBool(err.T == nil && target.T == nil)
	}
	for {
		if types.Identical(err.T, target.T) && types.Comparable(err.T) {
			if in.branch(in.equals(err.T, err.V, target.V), RecBranch, "errors.Is") {
				return mkBool(true)
			}
		}
		if m := in.W.lookupMethod(err.T, "Is", nil); m != nil && m.Signature.Params().Len() == 1 {
			r := in.callFunction(m, []Value{err.V, target}, nil)
			if b, ok := r.(Sc); ok && in.branch(b, RecBranch, "errors.Is") {
				return mkBool(true)
			}
		}
		var ok bool
		err, ok = in.errorUnwrap(err)
		if !ok {
			return mkBool(false)
		}
	}
}

func extErrorsAs(in *Interp, fn *ssa.Function, args []Value) Value {
	err, target := args[0].(Iface), args[1].(Iface)
	if target.T == nil {
		panic(goPanic{v: Iface{T: types.Typ[types.String], V: Str{S: "errors: target cannot be nil"}}, site: in.site()})
	}
	pt, ok := target.T.Underlying().(*types.Pointer)
	if !ok {
		panic(goPanic{v: Iface{T: types.Typ[types.String], V: Str{S: "errors: target must be a non-nil pointer"}}, site: in.site()})
	}
	tt := pt.Elem()
	cell := target.V.(*Value)
	for err.T != nil {
		if it, isI := tt.Underlying().(*types.Interface); isI {
			if types.Implements(err.T, it) {
				*cell = err
				return mkBool(true)
			}
		} else if types.Identical(err.T, tt) {
			*cell = copyVal(err.V)
			return mkBool(true)
		}
		if m := in.W.lookupMethod(err.T, "As", nil); m != nil && m.Signature.Params().Len() == 1 {
			r := in.callFunction(m, []Value{err.V, target}, nil)
			if b, ok := r.(Sc); ok && b.C != 0 {
				return mkBool(true)
			}
		}
		var ok bool
		err, ok = in.errorUnwrap(err)
		if !ok {
			break
		}
	}
	return mkBool(false)
}

// ---------- fmt ----------

// stringOf renders an interface argument the way fmt's %v / %s would for the
// kinds that occur in this code base. Result keeps symbolic bytes of strings.
func (in *Interp) fmtOperand(a Value, verb byte) Str {
	ia, ok := a.(Iface)
	if !ok {
		return Str{S: fmt.Sprintf("%%!%c(<non-iface %T>)", verb, a)}
	}
	if ia.T == nil {
		if verb == 'd' {
			return Str{S: "%!d(<nil>)"}
		}
		return Str{S: "%!" + string(verb) + "(<nil>)"}
	}
	// error / Stringer
	if verb == 's' || verb == 'v' || verb == 'q' || verb == 'w' {
		for _, mn := range []string{"Error", "String"} {
			if m := in.W.lookupMethod(ia.T, mn, nil); m != nil && m.Signature.Params().Len() == 0 && m.Signature.Results().Len() == 1 && isString(m.Signature.Results().At(0).Type()) {
				// nil pointer receivers print <nil>
				if p, isP := ia.V.(*Value); isP && p == nil {
					return Str{S: "<nil>"}
				}
				r := in.callFunction(m, []Value{ia.V}, nil).(Str)
				if verb == 'q' {
					return Str{S: strconv.Quote(r.S)}
				}
				return r
			}
		}
	}
	if p, isP := ia.V.(*Value); isP && (verb == 'p' || verb == 'v') {
		if p == nil {
			if verb == 'p' {
				return Str{S: "0x0"}
			}
			return Str{S: "<nil>"}
		}
		if in.ptrIDs == nil {
			in.ptrIDs = map[*Value]int{}
		}
		id, ok := in.ptrIDs[p]
		if !ok {
			id = len(in.ptrIDs) + 1
			in.ptrIDs[p] = id
		}
		in.Notes["imprecise:pointer-formatted-as-sequence-number"]++
		return Str{S: fmt.Sprintf("0xc%09x", id*16)}
	}
	switch v := ia.V.(type) {
	case Str:
		if verb == 'q' {
			if v.T != nil {
				in.Notes["imprecise:%q-of-symbolic-string"]++
			}
			return Str{S: strconv.Quote(v.S)}
		}
		if verb == 'd' {
			return Str{S: "%!d(string=" + v.S + ")"}
		}
		return v
	case Sc:
		k, _ := basicKind(ia.T)
		if v.T != nil {
			in.Notes["imprecise:fmt-of-symbolic-scalar"]++
		}
		if k.isBool {
			return Str{S: strconv.FormatBool(v.C != 0)}
		}
		switch verb {
		case 'q':
			return Str{S: strconv.QuoteRune(rune(int64(v.C)))}
		case 'c':
			return Str{S: string(rune(int64(v.C)))}
		case 'x':
			return Str{S: strconv.FormatUint(v.C, 16)}
		}
		if k.signed {
			return Str{S: strconv.FormatInt(int64(v.C), 10)}
		}
		return Str{S: strconv.FormatUint(v.C, 10)}
	case float64:
		return Str{S: fmt.Sprint(v)}
	case []Value:
		// []byte
		if sl, ok := ia.T.Underlying().(*types.Slice); ok {
			if ek, ok := basicKind(sl.Elem()); ok && ek.bits == 8 {
				s := strFromBytes(v)
				if verb == 'q' {
					return Str{S: strconv.Quote(s.S)}
				}
				if verb == 's' {
					return s
				}
			}
		}
	case Struct:
		// Bytes-like struct wrapping []byte is printed via String() above; others opaque
	}
	in.Notes["imprecise:fmt-opaque-operand"]++
	return Str{S: "<" + ia.T.String() + ">"}
}

func (in *Interp) sprintf(format Str, args []Value) Str {
	f := format.S
	out := Str{}
	argi := 0
	i := 0
	for i < len(f) {
		j := strings.IndexByte(f[i:], '%')
		if j < 0 {
			out = concatStr(out, format.Slice(i, len(f)))
			break
		}
		out = concatStr(out, format.Slice(i, i+j))
		i += j + 1
		if i >= len(f) {
			out = concatStr(out, Str{S: "%!(NOVERB)"})
			break
		}
		// flags / width are not used by this code base except %#v
		sharp := false
		for i < len(f) && (f[i] == '#' || f[i] == '+' || f[i] == '-' || f[i] == ' ' || f[i] == '0') {
			if f[i] == '#' {
				sharp = true
			}
			i++
		}
		for i < len(f) && f[i] >= '0' && f[i] <= '9' {
			in.Notes["imprecise:fmt-width-ignored"]++
			i++
		}
		verb := f[i]
		i++
		if verb == '%' {
			out = concatStr(out, Str{S: "%"})
			continue
		}
		if argi >= len(args) {
			out = concatStr(out, Str{S: "%!" + string(verb) + "(MISSING)"})
			continue
		}
		a := args[argi]
		argi++
		_ = sharp
		out = concatStr(out, in.fmtOperand(a, verb))
	}
	if argi < len(args) {
		out = concatStr(out, Str{S: "%!(EXTRA)"})
	}
	return out
}

func variadic(v Value) []Value {
	if v == nil {
		return nil
	}
	return v.([]Value)
}

func extSprintf(in *Interp, fn *ssa.Function, args []Value) Value {
	return in.sprintf(args[0].(Str), variadic(args[1]))
}

func extSprint(in *Interp, fn *ssa.Function, args []Value) Value {
	out := Str{}
	for _, a := range variadic(args[0]) {
		out = concatStr(out, in.fmtOperand(a, 'v'))
	}
	return out
}

func extErrorf(in *Interp, fn *ssa.Function, args []Value) Value {
	format := args[0].(Str)
	va := variadic(args[1])
	msg := in.sprintf(format, va)
	// %w operand
	if strings.Contains(format.S, "%w") && in.W.FmtWrapError != nil {
		// find the operand index of the first %w
		idx := 0
		f := format.S
		for i := 0; i+1 < len(f); i++ {
			if f[i] == '%' {
				if f[i+1] == '%' {
					i++
					continue
				}
				if f[i+1] == 'w' {
					break
				}
				idx++
				i++
			}
		}
		if idx < len(va) {
			if e, ok := va[idx].(Iface); ok && e.T != nil {
				p := new(Value)
				*p = Struct{msg, e}
				return Iface{T: in.W.FmtWrapError, V: p}
			}
		}
	}
	return in.newErrorString(msg)
}

// ---------- strings / bytes kernels ----------

func asStr(v Value) Str {
	switch v := v.(type) {
	case Str:
		return v
	case []Value:
		return strFromBytes(v)
	case nil:
		return Str{}
	}
	panic(fmt.Sprintf("asStr: %T", v))
}

// matchAt: does needle occur in hay at offset i (recorded when symbolic)?
func (in *Interp) matchAt(hay, needle Str, i int, tag string) bool {
	return in.branch(in.strEq(hay.Slice(i, i+needle.Len()), needle), RecBranch, tag)
}

func (in *Interp) indexOf(hay, needle Str, from int) int {
	n := needle.Len()
	for i := from; i+n <= hay.Len(); i++ {
		if in.matchAt(hay, needle, i, "index") {
			return i
		}
	}
	return -1
}

func extIndex(in *Interp, fn *ssa.Function, args []Value) Value {
	r := in.indexOf(asStr(args[0]), asStr(args[1]), 0)
	return Sc{C: uint64(int64(r))}
}

func extIndexByte(in *Interp, fn *ssa.Function, args []Value) Value {
	hay := asStr(args[0])
	c := args[1].(Sc)
	for i := 0; i < hay.Len(); i++ {
		b := hay.ByteAt(i)
		eq := mkBool(b.C == c.C&0xff)
		if b.T != nil || c.T != nil {
			eq.T = in.St.Eq(in.termOf(b, 8), in.termOf(c, 8))
		}
		if in.branch(eq, RecBranch, "indexbyte") {
			return Sc{C: uint64(i)}
		}
	}
	return Sc{C: ^uint64(0)}
}

func extCount(in *Interp, fn *ssa.Function, args []Value) Value {
	hay, sep := asStr(args[0]), asStr(args[1])
	if sep.Len() == 0 {
		if hay.T != nil {
			in.concretizeStr(hay, "count-empty-sep")
		}
		return Sc{C: uint64(utf8.RuneCountInString(hay.S) + 1)}
	}
	n := 0
	pos := 0
	for {
		i := in.indexOf(hay, sep, pos)
		if i < 0 {
			break
		}
		n++
		pos = i + sep.Len()
	}
	return Sc{C: uint64(n)}
}

func extBytesEqual(in *Interp, fn *ssa.Function, args []Value) Value {
	return in.strEq(asStr(args[0]), asStr(args[1]))
}

func extBytesCompare(in *Interp, fn *ssa.Function, args []Value) Value {
	return Sc{C: uint64(int64(in.strCmp(asStr(args[0]), asStr(args[1]))))}
}

func extMakeNoZero(in *Interp, fn *ssa.Function, args []Value) Value {
	n := in.intArg(args[0], "makenozero")
	s := make([]Value, n)
	for i := range s {
		s[i] = Sc{}
	}
	return s
}

// strings.Builder is struct{addr *Builder; buf []byte}
func builderBuf(in *Interp, recv Value) *Value {
	p := recv.(*Value)
	if p == nil {
		in.rtPanic("invalid memory address or nil pointer dereference")
	}
	st := (*p).(Struct)
	return &st[1]
}

func extBuilderWriteString(in *Interp, fn *ssa.Function, args []Value) Value {
	b := builderBuf(in, args[0])
	s := args[1].(Str)
	cur, _ := (*b).([]Value)
	*b = append(cur, bytesFromStr(s)...)
	return Tuple{Sc{C: uint64(s.Len())}, Iface{}}
}

func extBuilderWrite(in *Interp, fn *ssa.Function, args []Value) Value {
	b := builderBuf(in, args[0])
	s, _ := args[1].([]Value)
	cur, _ := (*b).([]Value)
	*b = append(cur, s...)
	return Tuple{Sc{C: uint64(len(s))}, Iface{}}
}

func extBuilderWriteByte(in *Interp, fn *ssa.Function, args []Value) Value {
	b := builderBuf(in, args[0])
	cur, _ := (*b).([]Value)
	*b = append(cur, args[1])
	return Iface{}
}

func extBuilderWriteRune(in *Interp, fn *ssa.Function, args []Value) Value {
	b := builderBuf(in, args[0])
	r := rune(int64(in.concretize(args[1].(Sc), 32, "writerune")))
	s := string(r)
	cur, _ := (*b).([]Value)
	*b = append(cur, bytesFromStr(Str{S: s})...)
	return Tuple{Sc{C: uint64(len(s))}, Iface{}}
}

func extBuilderString(in *Interp, fn *ssa.Function, args []Value) Value {
	b := builderBuf(in, args[0])
	cur, _ := (*b).([]Value)
	return strFromBytes(cur)
}

func extBuilderLen(in *Interp, fn *ssa.Function, args []Value) Value {
	b := builderBuf(in, args[0])
	cur, _ := (*b).([]Value)
	return Sc{C: uint64(len(cur))}
}

func extBuilderReset(in *Interp, fn *ssa.Function, args []Value) Value {
	b := builderBuf(in, args[0])
	*b = []Value(nil)
	return nil
}

// ---------- strconv ----------

func extFormatUint(in *Interp, fn *ssa.Function, args []Value) Value {
	v := in.concretize(args[0].(Sc), 64, "formatuint")
	base := in.intArg(args[1], "base")
	return Str{S: strconv.FormatUint(v, base)}
}

func extFormatInt(in *Interp, fn *ssa.Function, args []Value) Value {
	v := in.concretize(args[0].(Sc), 64, "formatint")
	base := in.intArg(args[1], "base")
	return Str{S: strconv.FormatInt(int64(v), base)}
}

func extItoa(in *Interp, fn *ssa.Function, args []Value) Value {
	v := in.concretize(args[0].(Sc), 64, "itoa")
	return Str{S: strconv.Itoa(int(int64(v)))}
}

func extAtoi(in *Interp, fn *ssa.Function, args []Value) Value {
	s := args[0].(Str)
	cs := in.concretizeStr(s, "atoi")
	n, err := strconv.Atoi(cs)
	if err != nil {
		return Tuple{Sc{C: uint64(int64(n))}, in.newErrorString(Str{S: err.Error()})}
	}
	return Tuple{Sc{C: uint64(int64(n))}, Iface{}}
}

func extQuote(in *Interp, fn *ssa.Function, args []Value) Value {
	s := args[0].(Str)
	if s.T != nil {
		in.Notes["imprecise:strconv.Quote-of-symbolic-string"]++
	}
	return Str{S: strconv.Quote(s.S)}
}

// ---------- sync ----------

func extOnceDo(in *Interp, fn *ssa.Function, args []Value) Value {
	p := args[0].(*Value)
	if in.onceDone == nil {
		in.onceDone = map[*Value]bool{}
	}
	if in.onceDone[p] {
		return nil
	}
	in.onceDone[p] = true
	in.call(args[1], nil)
	return nil
}

// ---------- file system (virtual) ----------

// The virtual file system is populated by the harness (vFile / vDir). Names are
// cleaned lexically, exactly as the OS would resolve them without symlinks.
func (in *Interp) vfsLookup(p Str, op string) (*vfile, string) {
	in.FSLog = append(in.FSLog, FSAccess{Op: op, Path: p})
	if p.Len() == 0 {
		return nil, ""
	}
	if in.RealFS && p.T == nil {
		// corpus mode: what the harness has put into the virtual file system wins, the rest is read
		// from the real one
		if f, ok := in.VFS[path.Clean(p.S)]; ok {
			return f, p.S
		}
		return in.realFile(p.S), p.S
	}
	in.pinPathShape(p)
	name := p.S
	clean := path.Clean(name)
	// compare the cleaned name with every entry (recorded when symbolic)
	var f *vfile
	keys := make([]string, 0, len(in.VFS))
	for k := range in.VFS {
		keys = append(keys, k)
	}
	sort.Strings(keys)
	if clean == name {
		for _, k := range keys {
			if len(k) != len(name) {
				continue
			}
			if in.branch(in.strEq(p, Str{S: k}), RecBranch, "vfs") {
				f = in.VFS[k]
				break
			}
		}
	} else {
		// the name is not in clean form: pin it (rare: only shapes with "//", "/./", "..")
		in.concretizeStr(p, "fs-path")
		f = in.VFS[clean]
	}
	// a trailing slash requires a directory
	if f != nil && strings.HasSuffix(name, "/") && !f.isDir {
		return nil, name
	}
	// every intermediate component must be a directory that exists
	if f != nil {
		d := path.Dir(clean)
		for d != "/" && d != "." {
			df := in.VFS[d]
			if df == nil || !df.isDir {
				return nil, name
			}
			d = path.Dir(d)
		}
	}
	if f == nil {
		// a regular file used as a directory: ENOTDIR, which is not ErrNotExist
		for d := path.Dir(clean); d != "/" && d != "."; d = path.Dir(d) {
			if df := in.VFS[d]; df != nil && !df.isDir {
				in.notDir = true
				break
			}
		}
	}
	return f, name
}

func (in *Interp) pathError(op, name, what string, notExist bool) Value {
	if in.notDir {
		in.notDir = false
		what, notExist = "not a directory", false
	}
	msg := Str{S: op + " " + name + ": " + what}
	if notExist && in.W.FmtWrapError != nil {
		p := new(Value)
		*p = Struct{msg, in.errNotExist()}
		return Iface{T: in.W.FmtWrapError, V: p}
	}
	return in.newErrorString(msg)
}

// fileInfo values are Iface{T: fileInfoType, V: *Value -> Sc(isDir)}; the
// type is the real *os.fileStat so that the invoke finds a method, which is
// then intercepted below.
func extOsStat(in *Interp, fn *ssa.Function, args []Value) Value {
	f, name := in.vfsLookup(args[0].(Str), "stat")
	if f == nil {
		return Tuple{Iface{}, in.pathError("stat", name, "no such file or directory", true)}
	}
	cell := new(Value)
	*cell = mkBool(f.isDir)
	t := in.W.osFileStatPtr()
	return Tuple{Iface{T: t, V: cell}, Iface{}}
}

func (w *World) osFileStatPtr() types.Type {
	w.mu.Lock()
	defer w.mu.Unlock()
	if w.fileStat != nil {
		return w.fileStat
	}
	p := w.Prog.ImportedPackage("os")
	w.fileStat = types.NewPointer(p.Type("fileStat").Type())
	return w.fileStat
}

func extFileStatIsDir(in *Interp, fn *ssa.Function, args []Value) Value {
	return *(args[0].(*Value))
}

func extOsReadFile(in *Interp, fn *ssa.Function, args []Value) Value {
	f, name := in.vfsLookup(args[0].(Str), "read")
	if f == nil {
		return Tuple{[]Value(nil), in.pathError("open", name, "no such file or directory", true)}
	}
	if f.isDir {
		return Tuple{[]Value(nil), in.pathError("read", name, "is a directory", false)}
	}
	c := make([]Value, len(f.content))
	copy(c, f.content)
	return Tuple{c, Iface{}}
}

// reader.Read(name) *fs.File: panics with the error when the file cannot be read.
func extReaderRead(in *Interp, fn *ssa.Function, args []Value) Value {
	f, name := in.vfsLookup(args[0].(Str), "read")
	if f == nil {
		panic(goPanic{v: in.pathError("open", name, "no such file or directory", true), site: in.site(), stack: in.stack()})
	}
	if f.isDir {
		panic(goPanic{v: in.pathError("read", name, "is a directory", false), site: in.site(), stack: in.stack()})
	}
	c := make([]Value, len(f.content))
	copy(c, f.content)
	// fs.File{name string; content bytes.Bytes{data []byte; nl byte}}
	p := new(Value)
	*p = Struct{args[0].(Str), Struct{c, Sc{}}}
	return p
}

// path/filepath (unix): interpreted natively on the concrete shadow, keeping
// symbolic bytes where the result is a pure concatenation. To stay precise the
// argument bytes that decide the shape of the result ('/' and '.') are pinned
// through recorded branches.
func (in *Interp) pinPathShape(s Str) {
	for i := 0; i < s.Len(); i++ {
		b := s.ByteAt(i)
		if b.T == nil {
			continue
		}
		for _, c := range []byte{'/', '.'} {
			eq := Sc{C: b2u(b.C == uint64(c)), T: in.St.Eq(b.T, in.St.Const(8, uint64(c)))}
			if in.branch(eq, RecBranch, "pathshape") {
				break
			}
		}
	}
}

// cleanSym applies path.Clean to s; when Clean is the identity on the concrete
// shadow (the common case for accepted names) the symbolic bytes survive.
func (in *Interp) cleanSym(s Str) Str {
	in.pinPathShape(s)
	c := path.Clean(s.S)
	if c == s.S {
		return s
	}
	// result is a subsequence rewrite: rebuild by aligning equal bytes greedily
	out := Str{S: c}
	if s.T != nil {
		out.T = make([]*sym.Term, len(c))
		j := 0
		for i := 0; i < len(c); i++ {
			for j < len(s.S) && s.S[j] != c[i] {
				j++
			}
			if j < len(s.S) {
				out.T[i] = s.T[j]
				j++
			}
		}
	}
	return out
}

func extFilepathClean(in *Interp, fn *ssa.Function, args []Value) Value {
	return in.cleanSym(args[0].(Str))
}

func extFilepathJoin(in *Interp, fn *ssa.Function, args []Value) Value {
	elems := variadic(args[0])
	joined := Str{}
	first := true
	for _, e := range elems {
		s := e.(Str)
		if s.Len() == 0 {
			continue
		}
		if !first {
			joined = concatStr(joined, Str{S: "/"})
		}
		first = false
		joined = concatStr(joined, s)
	}
	if joined.Len() == 0 {
		return Str{}
	}
	return in.cleanSym(joined)
}

func extFilepathDir(in *Interp, fn *ssa.Function, args []Value) Value {
	s := args[0].(Str)
	in.pinPathShape(s)
	i := strings.LastIndexByte(s.S, '/')
	dir := s.Slice(0, i+1)
	c := in.cleanSym(dir)
	return c
}

// ---------- harness intrinsics ----------

var harnessNames = map[string]ExtFn{
	"vByte":     hByte,
	"vBytes":    hBytes,
	"vInt":      hInt,
	"vBool":     hBool,
	"vAssume":   hAssume,
	"vAssert":   hAssert,
	"vReach":    hReach,
	"vObserve":  hObserve,
	"vFile":     hFile,
	"vDir":      hDir,
	"vSymbolic": func(in *Interp, fn *ssa.Function, args []Value) Value { return mkBool(true) },
	"vJSONValid": func(in *Interp, fn *ssa.Function, args []Value) Value {
		bs, _ := args[0].([]Value)
		b := []byte(in.needConcrete(strFromBytes(bs), "vJSONValid"))
		return mkBool(json.Valid(b) && utf8.Valid(b))
	},
	"vJSONCompact": func(in *Interp, fn *ssa.Function, args []Value) Value {
		bs, _ := args[0].([]Value)
		b := []byte(in.needConcrete(strFromBytes(bs), "vJSONCompact"))
		var out bytes.Buffer
		if err := json.Compact(&out, b); err != nil {
			return Str{S: "compact-error:" + err.Error()}
		}
		return Str{S: out.String()}
	},
	"vFSLog":         hFSLog,
	"vFSMark":        func(in *Interp, fn *ssa.Function, args []Value) Value { return nil },
	"vCorpusFile":    hCorpusFile,
	"vParam":         hParam,
	"vMapOrderSite":  hMapOrderSite,
	"vMapOrderSites": func(in *Interp, fn *ssa.Function, args []Value) Value { return Sc{C: uint64(len(in.rangeSites))} },
	"vPath":          func(in *Interp, fn *ssa.Function, args []Value) Value { return args[0] },
	"vCleanup":       func(in *Interp, fn *ssa.Function, args []Value) Value { return nil },
}

func hParam(in *Interp, fn *ssa.Function, args []Value) Value {
	name := args[0].(Str).S
	if v, ok := in.Cfg.Params[name]; ok {
		return Sc{C: uint64(v)}
	}
	return args[1]
}

func harnessIntrinsic(fn *ssa.Function) ExtFn {
	if fn.Pkg == nil || fn.Signature.Recv() != nil {
		return nil
	}
	if h, ok := harnessNames[fn.Name()]; ok {
		return h
	}
	return nil
}

func hByte(in *Interp, fn *ssa.Function, args []Value) Value {
	return in.NewVar(args[0].(Str).S, 8)
}

func hBytes(in *Interp, fn *ssa.Function, args []Value) Value {
	name := args[0].(Str).S
	n := in.intArg(args[1], "vBytes-n")
	out := make([]Value, n)
	for i := range out {
		out[i] = in.NewVar(fmt.Sprintf("%s_%d", name, i), 8)
	}
	return out
}

func hInt(in *Interp, fn *ssa.Function, args []Value) Value {
	name := args[0].(Str).S
	lo, hi := args[1].(Sc), args[2].(Sc)
	v := in.NewVar(name, 64)
	ok := Sc{
		C: b2u(int64(v.C) >= int64(lo.C) && int64(v.C) <= int64(hi.C)),
		T: in.St.And(in.St.Cmp(sym.OpSle, in.St.Const(64, lo.C), v.T), in.St.Cmp(sym.OpSle, v.T, in.St.Const(64, hi.C))),
	}
	if !in.branch(ok, RecAssume, "vInt-range") {
		in.abort(StAssumeFail, "vInt range")
	}
	return v
}

func hBool(in *Interp, fn *ssa.Function, args []Value) Value {
	return in.NewVar(args[0].(Str).S, 0)
}

func hAssume(in *Interp, fn *ssa.Function, args []Value) Value {
	if !in.branch(args[0].(Sc), RecAssume, "assume") {
		in.abort(StAssumeFail, "assume")
	}
	return nil
}

func hAssert(in *Interp, fn *ssa.Function, args []Value) Value {
	id := args[1].(Str).S
	if !in.branch(args[0].(Sc), RecAssert, id) {
		in.abort(StAssertFail, "%s", id)
	}
	return nil
}

func hReach(in *Interp, fn *ssa.Function, args []Value) Value {
	in.Reached[args[0].(Str).S] = true
	return nil
}

// Render renders a value concretely (for observations).
func (in *Interp) Render(v Value) string {
	switch v := v.(type) {
	case Iface:
		if v.T == nil {
			return "nil"
		}
		if k, ok := basicKind(v.T); ok {
			sc := v.V.(Sc)
			if k.isBool {
				return strconv.FormatBool(sc.C != 0)
			}
			if k.signed {
				return strconv.FormatInt(int64(sc.C), 10)
			}
			return strconv.FormatUint(sc.C, 10)
		}
		return in.Render(v.V)
	case Sc:
		return strconv.FormatInt(int64(v.C), 10)
	case Str:
		return strconv.Quote(v.S)
	case []Value:
		if len(v) > 0 {
			if _, ok := v[0].(Sc); ok {
				return strconv.Quote(strFromBytes(v).S)
			}
		}
		parts := []string{}
		for _, e := range v {
			parts = append(parts, in.Render(e))
		}
		return "[" + strings.Join(parts, " ") + "]"
	case *Value:
		if v == nil {
			return "nil"
		}
		return "ptr"
	case nil:
		return "nil"
	}
	return fmt.Sprintf("<%T>", v)
}

func hObserve(in *Interp, fn *ssa.Function, args []Value) Value {
	tag := args[0].(Str).S
	parts := []string{tag}
	for _, a := range variadic(args[1]) {
		parts = append(parts, in.Render(a))
	}
	in.Obs = append(in.Obs, strings.Join(parts, " "))
	return nil
}

func hFile(in *Interp, fn *ssa.Function, args []Value) Value {
	name := path.Clean(args[0].(Str).S)
	c, _ := args[1].([]Value)
	in.VFS[name] = &vfile{content: c}
	for d := path.Dir(name); d != "/" && d != "."; d = path.Dir(d) {
		if in.VFS[d] == nil {
			in.VFS[d] = &vfile{isDir: true}
		}
	}
	return nil
}

func hDir(in *Interp, fn *ssa.Function, args []Value) Value {
	name := path.Clean(args[0].(Str).S)
	in.VFS[name] = &vfile{isDir: true}
	for d := path.Dir(name); d != "/" && d != "."; d = path.Dir(d) {
		if in.VFS[d] == nil {
			in.VFS[d] = &vfile{isDir: true}
		}
	}
	return nil
}

func hFSLog(in *Interp, fn *ssa.Function, args []Value) Value {
	out := make([]Value, len(in.FSLog))
	for i, s := range in.FSLog {
		out[i] = s.Path
	}
	return out
}

// ExternalNames lists modelled functions (for evidence).
func ExternalNames() []string {
	var out []string
	for k := range externals {
		out = append(out, k)
	}
	sort.Strings(out)
	return out
}

// ---------- regexp (only the shapes this code base uses) ----------

func extRegexpMustCompile(in *Interp, fn *ssa.Function, args []Value) Value {
	pat := args[0].(Str)
	if _, err := regexp.Compile(pat.S); err != nil {
		panic(goPanic{v: Iface{T: types.Typ[types.String], V: Str{S: "regexp: Compile(" + strconv.Quote(pat.S) + "): " + err.Error()}}, site: in.site(), stack: in.stack()})
	}
	p := new(Value)
	*p = Struct{pat}
	return p
}

// ReplaceAllString: the pattern `\s+` (the only one in the code base) is modelled
// exactly over symbolic bytes: every maximal run of [\t\n\f\r ] becomes repl.
// One recorded branch per symbolic byte (class membership as a single term).
func extRegexpReplaceAllString(in *Interp, fn *ssa.Function, args []Value) Value {
	re := (*(args[0].(*Value))).(Struct)[0].(Str)
	src, repl := args[1].(Str), args[2].(Str)
	if re.S != `\s+` {
		in.Notes["imprecise:regexp-on-concrete-shadow"]++
		r := regexp.MustCompile(re.S)
		return Str{S: r.ReplaceAllString(in.concretizeStr(src, "regexp"), repl.S)}
	}
	out := Str{}
	inRun := false
	for i := 0; i < src.Len(); i++ {
		b := src.ByteAt(i)
		isSp := b.C == '\t' || b.C == '\n' || b.C == '\f' || b.C == '\r' || b.C == ' '
		c := mkBool(isSp)
		if b.T != nil {
			var alts []*sym.Term
			for _, w := range []uint64{'\t', '\n', '\f', '\r', ' '} {
				alts = append(alts, in.St.Eq(b.T, in.St.Const(8, w)))
			}
			c.T = in.St.Or(alts...)
		}
		if in.branch(c, RecBranch, "regexp-space") {
			if !inRun {
				out = concatStr(out, repl)
				inRun = true
			}
			continue
		}
		inRun = false
		out = concatStr(out, src.Slice(i, i+1))
	}
	return out
}

// unicode.IsSpace as a single term over the (possibly symbolic) rune.
func extUnicodeIsSpace(in *Interp, fn *ssa.Function, args []Value) Value {
	r := args[0].(Sc)
	v := int64(r.C)
	ranges := [][2]int64{{0x9, 0xd}, {0x20, 0x20}, {0x85, 0x85}, {0xa0, 0xa0}, {0x1680, 0x1680}, {0x2000, 0x200a}, {0x2028, 0x2029}, {0x202f, 0x202f}, {0x205f, 0x205f}, {0x3000, 0x3000}}
	is := false
	for _, rg := range ranges {
		if v >= rg[0] && v <= rg[1] {
			is = true
		}
	}
	res := mkBool(is)
	if r.T != nil && !r.T.IsConst() {
		var alts []*sym.Term
		for _, rg := range ranges {
			if rg[0] == rg[1] {
				alts = append(alts, in.St.Eq(r.T, in.St.Const(32, uint64(rg[0]))))
			} else {
				alts = append(alts, in.St.And(in.St.Cmp(sym.OpSle, in.St.Const(32, uint64(rg[0])), r.T), in.St.Cmp(sym.OpSle, r.T, in.St.Const(32, uint64(rg[1])))))
			}
		}
		res.T = in.St.Or(alts...)
	}
	return res
}

var corpusOnce sync.Once
var corpusFiles []string

func hCorpusFile(in *Interp, fn *ssa.Function, args []Value) Value {
	corpusOnce.Do(func() {
		filepath.Walk("/repo/testdata", func(p string, info os.FileInfo, err error) error {
			if err == nil && !info.IsDir() && strings.HasSuffix(p, ".jst") {
				corpusFiles = append(corpusFiles, p)
			}
			return nil
		})
		sort.Strings(corpusFiles)
	})
	i := in.intArg(args[0], "corpus-i")
	if i < 0 || i >= len(corpusFiles) {
		return Tuple{Str{}, []Value(nil)}
	}
	b, err := os.ReadFile(corpusFiles[i])
	if err != nil {
		in.unsupported("corpus read: %v", err)
	}
	in.RealFS = true
	return Tuple{Str{S: corpusFiles[i]}, bytesFromStr(Str{S: string(b)})}
}

// realFile: fall back to the real file system (corpus mode only).
func (in *Interp) realFile(name string) *vfile {
	if !in.RealFS {
		return nil
	}
	st, err := os.Stat(name)
	if err != nil {
		return nil
	}
	if st.IsDir() {
		return &vfile{isDir: true}
	}
	b, err := os.ReadFile(name)
	if err != nil {
		return nil
	}
	return &vfile{content: bytesFromStr(Str{S: string(b)})}
}

// sync.Pool: always empty; Get calls New (a legal Pool behaviour).
// sync.Pool: a pool may or may not hand an object out again; the model always reuses the most
// recently returned one (LIFO) — the choice that exposes a caller who keeps using, or keeps a
// slice of, an object it has put back (a single goroutine sees the same natively).
func extPoolPut(in *Interp, fn *ssa.Function, args []Value) Value {
	p := args[0].(*Value)
	if p == nil {
		in.rtPanic("invalid memory address or nil pointer dereference")
	}
	if in.pools == nil {
		in.pools = map[*Value][]Value{}
	}
	in.pools[p] = append(in.pools[p], args[1])
	return nil
}

func extPoolGet(in *Interp, fn *ssa.Function, args []Value) Value {
	p := args[0].(*Value)
	if p == nil {
		in.rtPanic("invalid memory address or nil pointer dereference")
	}
	if q := in.pools[p]; len(q) > 0 {
		v := q[len(q)-1]
		in.pools[p] = q[:len(q)-1]
		return v
	}
	st := fn.Signature.Recv().Type().(*types.Pointer).Elem().Underlying().(*types.Struct)
	for i := 0; i < st.NumFields(); i++ {
		if st.Field(i).Name() == "New" {
			f := (*p).(Struct)[i]
			if c, ok := f.(*Closure); ok && c == nil {
				return Iface{}
			}
			if f == nil {
				return Iface{}
			}
			return in.call(f, nil)
		}
	}
	return Iface{}
}

// ---------- concrete-only delegations to the native standard library ----------
// (used below jsight-schema-core's constraint code; symbolic operands are an explicit drop)

func (in *Interp) needConcrete(s Str, what string) string {
	if s.T != nil {
		in.unsupported("%s on symbolic operand", what)
	}
	return s.S
}

func extRegexpCompile(in *Interp, fn *ssa.Function, args []Value) Value {
	pat := args[0].(Str)
	if _, err := regexp.Compile(in.needConcrete(pat, "regexp.Compile")); err != nil {
		return Tuple{(*Value)(nil), in.newErrorString(Str{S: err.Error()})}
	}
	p := new(Value)
	*p = Struct{pat}
	return Tuple{p, Iface{}}
}

func extRegexpMatch(in *Interp, fn *ssa.Function, args []Value) Value {
	re := (*(args[0].(*Value))).(Struct)[0].(Str)
	subj := asStr(args[1])
	r := regexp.MustCompile(re.S)
	return mkBool(r.MatchString(in.needConcrete(subj, "regexp match")))
}

func extRegexpString(in *Interp, fn *ssa.Function, args []Value) Value {
	return (*(args[0].(*Value))).(Struct)[0].(Str)
}

func extTimeParse(in *Interp, fn *ssa.Function, args []Value) Value {
	layout := in.needConcrete(args[0].(Str), "time.Parse")
	value := in.needConcrete(args[1].(Str), "time.Parse")
	_, err := time.Parse(layout, value)
	z := zero(fn.Signature.Results().At(0).Type())
	in.Notes["imprecise:time.Parse-result-value-opaque"]++
	if err != nil {
		return Tuple{z, in.newErrorString(Str{S: err.Error()})}
	}
	return Tuple{z, Iface{}}
}

func extJSONUnmarshal(in *Interp, fn *ssa.Function, args []Value) Value {
	data := in.needConcrete(asStr(args[0]), "json.Unmarshal")
	target := args[1].(Iface)
	pt, ok := target.T.Underlying().(*types.Pointer)
	if !ok || !isString(pt.Elem()) {
		in.unsupported("json.Unmarshal into %s", target.T)
	}
	var str string
	if err := json.Unmarshal([]byte(data), &str); err != nil {
		return in.newErrorString(Str{S: err.Error()})
	}
	*(target.V.(*Value)) = Str{S: str}
	return Iface{}
}

func extMailParseAddress(in *Interp, fn *ssa.Function, args []Value) Value {
	a := in.needConcrete(args[0].(Str), "mail.ParseAddress")
	_, err := mail.ParseAddress(a)
	if err != nil {
		return Tuple{(*Value)(nil), in.newErrorString(Str{S: err.Error()})}
	}
	in.Notes["imprecise:mail.ParseAddress-result-opaque"]++
	p := new(Value)
	*p = zero(fn.Signature.Results().At(0).Type().(*types.Pointer).Elem())
	return Tuple{p, Iface{}}
}

// reggen (regex example generator): opaque; example text is outside every claim.
func extReggenNew(in *Interp, fn *ssa.Function, args []Value) Value {
	pat := in.needConcrete(args[0].(Str), "reggen.NewGenerator")
	g, err := reggen.NewGenerator(pat)
	if err != nil {
		return Tuple{(*Value)(nil), in.newErrorString(Str{S: err.Error()})}
	}
	p := new(Value)
	*p = Struct{Str{S: pat}}
	if in.reggens == nil {
		in.reggens = map[*Value]*reggen.Generator{}
	}
	in.reggens[p] = g
	in.Notes["native:reggen (regex example generator runs natively on concrete patterns)"]++
	return Tuple{p, Iface{}}
}

func extReggenSetSeed(in *Interp, fn *ssa.Function, args []Value) Value {
	g := in.reggens[args[0].(*Value)]
	g.SetSeed(int64(in.concretize(args[1].(Sc), 64, "reggen-seed")))
	return nil
}

func extReggenGenerate(in *Interp, fn *ssa.Function, args []Value) Value {
	g := in.reggens[args[0].(*Value)]
	limit := in.intArg(args[1], "reggen-limit")
	var out string
	var pv interface{}
	func() {
		// the library panics on patterns it cannot serve (math/rand: "invalid argument to Intn"):
		// the panic belongs to the interpreted program, which may recover it
		defer func() { pv = recover() }()
		out = g.Generate(limit)
	}()
	if pv != nil {
		panic(goPanic{v: Iface{T: types.Typ[types.String], V: Str{S: fmt.Sprint(pv)}}, site: in.site(), stack: in.stack()})
	}
	return Str{S: out}
}

// sort.Slice / sort.SliceStable: stable insertion sort driving the interpreted less function.
func extSortSlice(in *Interp, fn *ssa.Function, args []Value) Value {
	x := args[0].(Iface)
	sl, _ := x.V.([]Value)
	less := args[1]
	lt := func(i, j int) bool {
		r := in.call(less, []Value{Sc{C: uint64(i)}, Sc{C: uint64(j)}}).(Sc)
		return in.branch(r, RecBranch, "sort-less")
	}
	for i := 1; i < len(sl); i++ {
		for j := i; j > 0 && lt(j, j-1); j-- {
			sl[j], sl[j-1] = sl[j-1], sl[j]
		}
	}
	return nil
}

// vMapOrderSite(k): from now on the k-th distinct range-over-map site (numbered
// in order of first execution) iterates in a symbolic order; k < 0 switches it off.
func hMapOrderSite(in *Interp, fn *ssa.Function, args []Value) Value {
	in.permSite = int(int64(args[0].(Sc).C))
	in.permInstances = 0
	in.rangeSites = map[ssa.Instruction]int{}
	if in.permSite < 0 {
		in.permSite = -1
	}
	return nil
}
