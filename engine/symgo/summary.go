package symgo

import (
	"go/token"
	"go/types"

	"golang.org/x/tools/go/ssa"
)

// Pure-callee summaries: a small, pure function over scalars (no loads/stores,
// no loops, calls only to other summarised functions) is executed on ALL its
// paths at the call site and its result is folded into one ite term, instead of
// forking the caller's path at every inner branch. The summary is derived from
// the current SSA at every call; anything outside this fragment falls back to
// ordinary interpretation (always sound).

// DefaultSummaries: functions tried for summarisation (by ssa name).
var DefaultSummaries = map[string]bool{
	RepoModule + "/scanner.caseWhitespace":                                        true,
	RepoModule + "/scanner.caseNewLine":                                           true,
	RepoModule + "/scanner.isWhitespace":                                          true,
	RepoModule + "/scanner.IsNewLine":                                             true,
	RepoModule + "/scanner.otherByte":                                             true,
	"github.com/jsightapi/jsight-schema-core/bytes.IsBlank":                       true,
	"github.com/jsightapi/jsight-schema-core/bytes.IsSpace":                       true,
	"github.com/jsightapi/jsight-schema-core/bytes.IsNewLine":                     true,
	"github.com/jsightapi/jsight-schema-core/bytes.IsDigit":                       true,
	"github.com/jsightapi/jsight-schema-core/bytes.IsHexDigit":                    true,
	"github.com/jsightapi/jsight-schema-core/bytes.IsValidUserTypeNameByte":       true,
	"(" + RepoModule + "/directive.Enumeration).IsHTTPRequestMethod":             true,
	"(" + RepoModule + "/directive.Enumeration).IsAllowedForRootContext":         true,
	"(" + RepoModule + "/scanner.LexemeEventType).IsBeginning":                   true,
	"(" + RepoModule + "/scanner.LexemeEventType).IsEnding":                      true,
	"(" + RepoModule + "/scanner.LexemeEventType).IsSingle":                      true,
}

type sumCtx struct {
	in    *Interp
	forks int
}

// trySummary returns (result, true) when fn could be summarised for these arguments.
func (in *Interp) trySummary(fn *ssa.Function, args []Value) (Value, bool) {
	if fn.Blocks == nil || len(fn.FreeVars) != 0 || fn.Signature.Results().Len() != 1 {
		return nil, false
	}
	if _, ok := basicKind(fn.Signature.Results().At(0).Type()); !ok {
		return nil, false
	}
	anySym := false
	for _, a := range args {
		sc, ok := a.(Sc)
		if !ok {
			return nil, false
		}
		if sc.T != nil && !sc.T.IsConst() {
			anySym = true
		}
	}
	if !anySym {
		return nil, false // concrete call: ordinary interpretation is as cheap
	}
	regs := map[ssa.Value]Value{}
	for i, p := range fn.Params {
		regs[p] = args[i]
	}
	sc := &sumCtx{in: in}
	mark := len(in.Trace)
	r, ok := sc.exec(fn, fn.Blocks[0], nil, regs)
	if !ok || len(in.Trace) != mark {
		in.Trace = in.Trace[:mark]
		return nil, false
	}
	in.Notes["summary:"+fn.String()]++
	return r, true
}

func (s *sumCtx) get(regs map[ssa.Value]Value, v ssa.Value) (Value, bool) {
	if c, ok := v.(*ssa.Const); ok {
		if c.Value == nil {
			return nil, false
		}
		if _, isSc := basicKind(c.Type()); !isSc {
			return nil, false
		}
		return s.in.constValue(c), true
	}
	r, ok := regs[v]
	return r, ok
}

func (s *sumCtx) exec(fn *ssa.Function, b, prev *ssa.BasicBlock, regs map[ssa.Value]Value) (Sc, bool) {
	in := s.in
	for steps := 0; steps < 400; steps++ {
		var next *ssa.BasicBlock
		for _, ins := range b.Instrs {
			switch ins := ins.(type) {
			case *ssa.DebugRef:
			case *ssa.Phi:
				found := false
				for i, p := range b.Preds {
					if p == prev {
						v, ok := s.get(regs, ins.Edges[i])
						if !ok {
							return Sc{}, false
						}
						regs[ins] = v
						found = true
					}
				}
				if !found {
					return Sc{}, false
				}
			case *ssa.BinOp:
				x, ok1 := s.get(regs, ins.X)
				y, ok2 := s.get(regs, ins.Y)
				if !ok1 || !ok2 {
					return Sc{}, false
				}
				switch ins.Op {
				case token.QUO, token.REM, token.SHL, token.SHR:
					return Sc{}, false // may raise run-time checks
				}
				if _, isSc := x.(Sc); !isSc {
					return Sc{}, false
				}
				regs[ins] = in.binop(ins.Op, ins.X.Type(), ins.Y.Type(), x, y)
			case *ssa.UnOp:
				if ins.Op == token.MUL || ins.Op == token.ARROW {
					return Sc{}, false
				}
				x, ok := s.get(regs, ins.X)
				if !ok {
					return Sc{}, false
				}
				regs[ins] = in.unop(ins, x)
			case *ssa.Convert:
				x, ok := s.get(regs, ins.X)
				if !ok {
					return Sc{}, false
				}
				if _, ok := basicKind(ins.Type()); !ok {
					return Sc{}, false
				}
				if _, ok := basicKind(ins.X.Type()); !ok {
					return Sc{}, false
				}
				regs[ins] = in.conv(ins.Type(), ins.X.Type(), x)
			case *ssa.ChangeType:
				x, ok := s.get(regs, ins.X)
				if !ok {
					return Sc{}, false
				}
				regs[ins] = x
			case *ssa.Call:
				callee := ins.Call.StaticCallee()
				if callee == nil || ins.Call.IsInvoke() || !in.Cfg.Summaries[callee.String()] {
					return Sc{}, false
				}
				var args []Value
				for _, a := range ins.Call.Args {
					v, ok := s.get(regs, a)
					if !ok {
						return Sc{}, false
					}
					args = append(args, v)
				}
				creg := map[ssa.Value]Value{}
				if callee.Blocks == nil || len(args) != len(callee.Params) {
					return Sc{}, false
				}
				for i, p := range callee.Params {
					creg[p] = args[i]
				}
				r, ok := s.exec(callee, callee.Blocks[0], nil, creg)
				if !ok {
					return Sc{}, false
				}
				regs[ins] = r
			case *ssa.If:
				cv, ok := s.get(regs, ins.Cond)
				if !ok {
					return Sc{}, false
				}
				c := cv.(Sc)
				if c.T == nil || c.T.IsConst() {
					if c.C != 0 {
						next = b.Succs[0]
					} else {
						next = b.Succs[1]
					}
					break
				}
				s.forks++
				if s.forks > 64 {
					return Sc{}, false
				}
				r1, ok1 := s.exec(fn, b.Succs[0], b, copyRegs(regs))
				r0, ok0 := s.exec(fn, b.Succs[1], b, copyRegs(regs))
				if !ok1 || !ok0 {
					return Sc{}, false
				}
				k, _ := basicKind(fn.Signature.Results().At(0).Type())
				w := k.bits
				if k.isBool {
					w = 0
				}
				res := r0
				if c.C != 0 {
					res = r1
				}
				t := in.St.Ite(c.T, in.termOf(r1, w), in.termOf(r0, w))
				if t.IsConst() {
					return Sc{C: res.C}, true
				}
				return Sc{C: res.C, T: t}, true
			case *ssa.Jump:
				next = b.Succs[0]
			case *ssa.Return:
				if len(ins.Results) != 1 {
					return Sc{}, false
				}
				v, ok := s.get(regs, ins.Results[0])
				if !ok {
					return Sc{}, false
				}
				r, isSc := v.(Sc)
				return r, isSc
			default:
				return Sc{}, false
			}
			if next != nil {
				break
			}
		}
		if next == nil {
			return Sc{}, false
		}
		prev, b = b, next
	}
	return Sc{}, false
}

func copyRegs(m map[ssa.Value]Value) map[ssa.Value]Value {
	n := make(map[ssa.Value]Value, len(m)+4)
	for k, v := range m {
		n[k] = v
	}
	return n
}

var _ = types.Typ
