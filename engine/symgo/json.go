package symgo

// encoding/json.Marshal / MarshalIndent over interpreter values.
//
// encoding/json walks its argument by reflection, which the SSA interpreter cannot
// execute. This file re-implements the documented encoding rules over the
// interpreter's own values, driven by go/types: struct fields and `json` tags (name,
// omitempty, "-", string), embedded structs, pointers, interfaces, slices, arrays,
// maps with sorted keys, json.Marshaler and encoding.TextMarshaler methods (called
// through the interpreter, i.e. the REAL MarshalJSON / MarshalText code of the
// repository and of jsight-schema-core runs), string escaping as encoding/json does it
// (HTML-safe, invalid UTF-8 replaced, U+2028/9), compaction of what a Marshaler returns.
// The corpus differential (`vcheck SELFTEST`) compares its output byte for byte with the
// native ToJson of every corpus file.
//
// Strings with symbolic bytes are concretised as an explicit drop (escaping depends on
// the byte values).

import (
	"bytes"
	stdjson "encoding/json"
	"fmt"
	"go/types"
	"reflect"
	"sort"
	"strconv"
	"strings"
	"unicode/utf8"

	"golang.org/x/tools/go/ssa"
)

type jsonErr struct{ msg string }

func extJSONMarshal(in *Interp, fn *ssa.Function, args []Value) Value {
	b, err := in.jsonMarshalIface(args[0])
	if err != nil {
		return Tuple{[]Value(nil), in.newErrorString(Str{S: err.msg})}
	}
	return Tuple{bytesFromStr(Str{S: string(b)}), Iface{}}
}

func extJSONMarshalIndent(in *Interp, fn *ssa.Function, args []Value) Value {
	b, err := in.jsonMarshalIface(args[0])
	if err != nil {
		return Tuple{[]Value(nil), in.newErrorString(Str{S: err.msg})}
	}
	prefix := in.needConcrete(args[1].(Str), "json.MarshalIndent prefix")
	indent := in.needConcrete(args[2].(Str), "json.MarshalIndent indent")
	var out bytes.Buffer
	if e := stdjson.Indent(&out, b, prefix, indent); e != nil {
		return Tuple{[]Value(nil), in.newErrorString(Str{S: e.Error()})}
	}
	return Tuple{bytesFromStr(Str{S: out.String()}), Iface{}}
}

func (in *Interp) jsonMarshalIface(v Value) ([]byte, *jsonErr) {
	in.Notes["model:encoding/json over interpreter values"]++
	var sb bytes.Buffer
	ifc, ok := v.(Iface)
	if !ok || ifc.T == nil {
		sb.WriteString("null")
		return sb.Bytes(), nil
	}
	if err := in.jsonValue(&sb, ifc.T, ifc.V, false, 0); err != nil {
		return nil, err
	}
	return sb.Bytes(), nil
}

var jsonMarshalerName, textMarshalerName = "MarshalJSON", "MarshalText"

// marshalerOf: does t (or, for an addressable value, *t) have the method?
func (in *Interp) marshalerOf(t types.Type, name string, addressable bool) (fn *ssa.Function, viaPtr bool) {
	if hasMethod(t, name) {
		return in.W.lookupMethod(t, name, nil), false
	}
	if _, isPtr := t.Underlying().(*types.Pointer); !isPtr && addressable {
		pt := types.NewPointer(t)
		if hasMethod(pt, name) {
			return in.W.lookupMethod(pt, name, nil), true
		}
	}
	return nil, false
}

func hasMethod(t types.Type, name string) bool {
	ms := types.NewMethodSet(t)
	for i := 0; i < ms.Len(); i++ {
		m := ms.At(i).Obj()
		if m.Name() == name && m.Exported() {
			sig := m.Type().(*types.Signature)
			if sig.Params().Len() == 0 && sig.Results().Len() == 2 {
				return true
			}
		}
	}
	return false
}

func (in *Interp) callMarshaler(fn *ssa.Function, t types.Type, v Value, viaPtr bool) (string, *jsonErr) {
	recv := v
	if viaPtr {
		p := new(Value)
		*p = v
		recv = p
	}
	// an interface-typed receiver is unwrapped by the caller
	res := in.callFunction(fn, []Value{recv}, nil)
	tup := res.(Tuple)
	if e, ok := tup[1].(Iface); ok && e.T != nil {
		return "", &jsonErr{msg: "json: error calling " + fn.Name() + " for type " + types.TypeString(t, relPkg) + ": " + in.errorText(e)}
	}
	bs, _ := tup[0].([]Value)
	s := strFromBytes(bs)
	return in.needConcrete(s, "json marshaler result"), nil
}

func relPkg(p *types.Package) string { return p.Name() }

func (in *Interp) errorText(e Iface) string {
	if f := in.W.lookupMethod(e.T, "Error", nil); f != nil {
		r := in.callFunction(f, []Value{e.V}, nil)
		if s, ok := r.(Str); ok {
			return in.needConcrete(s, "error text")
		}
	}
	return "<error>"
}

func (in *Interp) jsonValue(sb *bytes.Buffer, t types.Type, v Value, addressable bool, depth int) *jsonErr {
	if depth > 200 {
		return &jsonErr{msg: "json: unsupported value: encountered a cycle"}
	}
	// nil pointers / interfaces are null before any method is looked at (encoding/json does
	// not call a pointer-receiver MarshalJSON on a nil pointer)
	switch u := t.Underlying().(type) {
	case *types.Pointer:
		p, _ := v.(*Value)
		if p == nil {
			sb.WriteString("null")
			return nil
		}
		_ = u
	case *types.Interface:
		ifc, _ := v.(Iface)
		if ifc.T == nil {
			sb.WriteString("null")
			return nil
		}
		return in.jsonValue(sb, ifc.T, ifc.V, false, depth+1)
	}
	if fn, viaPtr := in.marshalerOf(t, jsonMarshalerName, addressable); fn != nil {
		s, err := in.callMarshaler(fn, t, v, viaPtr)
		if err != nil {
			return err
		}
		var out bytes.Buffer
		if e := stdjson.Compact(&out, []byte(s)); e != nil {
			return &jsonErr{msg: "json: error calling MarshalJSON for type " + types.TypeString(t, relPkg) + ": " + e.Error()}
		}
		// encoding/json escapes HTML in what a Marshaler returns, too
		var esc bytes.Buffer
		stdjson.HTMLEscape(&esc, out.Bytes())
		sb.Write(esc.Bytes())
		return nil
	}
	if fn, viaPtr := in.marshalerOf(t, textMarshalerName, addressable); fn != nil {
		s, err := in.callMarshaler(fn, t, v, viaPtr)
		if err != nil {
			return err
		}
		jsonString(sb, s)
		return nil
	}
	switch u := t.Underlying().(type) {
	case *types.Basic:
		switch {
		case u.Info()&types.IsBoolean != 0:
			sc := v.(Sc)
			b := in.concretize(sc, 1, "json bool") != 0
			sb.WriteString(strconv.FormatBool(b))
		case u.Info()&types.IsString != 0:
			jsonString(sb, in.needConcrete(v.(Str), "json string"))
		case u.Info()&types.IsInteger != 0:
			k, _ := basicKind(t)
			c := in.concretize(v.(Sc), k.bits, "json integer")
			if k.signed {
				sb.WriteString(strconv.FormatInt(int64(c), 10))
			} else {
				sb.WriteString(strconv.FormatUint(c, 10))
			}
		case u.Info()&types.IsFloat != 0:
			f := v.(float64)
			b, err := stdjson.Marshal(f)
			if err != nil {
				return &jsonErr{msg: err.Error()}
			}
			sb.Write(b)
		default:
			return &jsonErr{msg: "json: unsupported type: " + t.String()}
		}
	case *types.Pointer:
		p := v.(*Value)
		return in.jsonValue(sb, u.Elem(), *p, true, depth+1)
	case *types.Struct:
		return in.jsonStruct(sb, u, v.(Struct), addressable, depth)
	case *types.Slice:
		s, _ := v.([]Value)
		if s == nil {
			sb.WriteString("null")
			return nil
		}
		if b, ok := u.Elem().Underlying().(*types.Basic); ok && b.Kind() == types.Uint8 {
			if !hasMethod(u.Elem(), jsonMarshalerName) && !hasMethod(u.Elem(), textMarshalerName) {
				raw := in.needConcrete(strFromBytes(s), "json []byte")
				enc, _ := stdjson.Marshal([]byte(raw))
				sb.Write(enc)
				return nil
			}
		}
		sb.WriteByte('[')
		for i := range s {
			if i > 0 {
				sb.WriteByte(',')
			}
			if err := in.jsonValue(sb, u.Elem(), s[i], true, depth+1); err != nil {
				return err
			}
		}
		sb.WriteByte(']')
	case *types.Array:
		a := v.(Array)
		sb.WriteByte('[')
		for i := range a {
			if i > 0 {
				sb.WriteByte(',')
			}
			if err := in.jsonValue(sb, u.Elem(), a[i], addressable, depth+1); err != nil {
				return err
			}
		}
		sb.WriteByte(']')
	case *types.Map:
		m, _ := v.(*Map)
		if m == nil {
			sb.WriteString("null")
			return nil
		}
		type kv struct {
			k string
			v Value
		}
		kvs := make([]kv, 0, len(m.Keys))
		for i, k := range m.Keys {
			ks, err := in.jsonMapKey(u.Key(), k)
			if err != nil {
				return err
			}
			kvs = append(kvs, kv{ks, m.Vals[i]})
		}
		sort.Slice(kvs, func(i, j int) bool { return kvs[i].k < kvs[j].k })
		sb.WriteByte('{')
		for i, e := range kvs {
			if i > 0 {
				sb.WriteByte(',')
			}
			jsonString(sb, e.k)
			sb.WriteByte(':')
			if err := in.jsonValue(sb, u.Elem(), e.v, false, depth+1); err != nil {
				return err
			}
		}
		sb.WriteByte('}')
	default:
		return &jsonErr{msg: "json: unsupported type: " + t.String()}
	}
	return nil
}

func (in *Interp) jsonMapKey(kt types.Type, k Value) (string, *jsonErr) {
	if b, ok := kt.Underlying().(*types.Basic); ok && b.Info()&types.IsString != 0 {
		// a string kind wins over MarshalText (encoding/json resolveKeyName)
		return in.needConcrete(k.(Str), "json map key"), nil
	}
	if fn, viaPtr := in.marshalerOf(kt, textMarshalerName, false); fn != nil {
		return in.callMarshaler(fn, kt, k, viaPtr)
	}
	if b, ok := kt.Underlying().(*types.Basic); ok && b.Info()&types.IsInteger != 0 {
		kk, _ := basicKind(kt)
		c := in.concretize(k.(Sc), kk.bits, "json map key")
		if kk.signed {
			return strconv.FormatInt(int64(c), 10), nil
		}
		return strconv.FormatUint(c, 10), nil
	}
	return "", &jsonErr{msg: "json: unsupported type: map key " + kt.String()}
}

type jsonField struct {
	name      string
	index     []int
	typ       types.Type
	omitEmpty bool
	quoted    bool
	tagged    bool
}

// jsonFields: the fields encoding/json sees (typeFields), with the dominance rules for
// embedded structs reduced to: shallower wins; at equal depth a tagged one wins; otherwise
// the name is dropped.
func jsonFields(st *types.Struct) []jsonField {
	type cand struct {
		f     jsonField
		depth int
	}
	var all []cand
	var walk func(st *types.Struct, prefix []int, depth int, seen map[*types.Struct]bool)
	walk = func(st *types.Struct, prefix []int, depth int, seen map[*types.Struct]bool) {
		if seen[st] {
			return
		}
		seen[st] = true
		for i := 0; i < st.NumFields(); i++ {
			f := st.Field(i)
			tag := reflect.StructTag(st.Tag(i)).Get("json")
			if tag == "-" {
				continue
			}
			name, opts, _ := strings.Cut(tag, ",")
			ft := f.Type()
			if f.Embedded() {
				et := ft
				if p, ok := et.Underlying().(*types.Pointer); ok {
					et = p.Elem()
				}
				if !f.Exported() {
					if _, isStruct := et.Underlying().(*types.Struct); !isStruct {
						continue
					}
				}
				if est, ok := et.Underlying().(*types.Struct); ok && name == "" {
					walk(est, append(append([]int{}, prefix...), i), depth+1, seen)
					continue
				}
			} else if !f.Exported() {
				continue
			}
			jf := jsonField{name: name, index: append(append([]int{}, prefix...), i), typ: ft, tagged: name != ""}
			if jf.name == "" {
				jf.name = f.Name()
			}
			for _, o := range strings.Split(opts, ",") {
				switch o {
				case "omitempty":
					jf.omitEmpty = true
				case "string":
					jf.quoted = true
				}
			}
			all = append(all, cand{jf, depth})
		}
		delete(seen, st)
	}
	walk(st, nil, 0, map[*types.Struct]bool{})
	// dominance
	byName := map[string][]cand{}
	var order []string
	for _, c := range all {
		if _, ok := byName[c.f.name]; !ok {
			order = append(order, c.f.name)
		}
		byName[c.f.name] = append(byName[c.f.name], c)
	}
	var out []jsonField
	for _, n := range order {
		cs := byName[n]
		best := cs[0]
		ambiguous := false
		for _, c := range cs[1:] {
			switch {
			case c.depth < best.depth:
				best, ambiguous = c, false
			case c.depth == best.depth:
				if c.f.tagged && !best.f.tagged {
					best, ambiguous = c, false
				} else if c.f.tagged == best.f.tagged {
					ambiguous = true
				}
			}
		}
		if !ambiguous {
			out = append(out, best.f)
		}
	}
	// encoding/json orders fields by index sequence
	sort.SliceStable(out, func(i, j int) bool {
		a, b := out[i].index, out[j].index
		for k := 0; k < len(a) && k < len(b); k++ {
			if a[k] != b[k] {
				return a[k] < b[k]
			}
		}
		return len(a) < len(b)
	})
	return out
}

func (in *Interp) jsonStruct(sb *bytes.Buffer, st *types.Struct, v Struct, addressable bool, depth int) *jsonErr {
	sb.WriteByte('{')
	first := true
	for _, f := range jsonFields(st) {
		// reach the field through embedded (pointer to) structs
		var fv Value = v
		var ft types.Type = st
		reachable := true
		addr := addressable
		for _, ix := range f.index {
			cst := ft.Underlying()
			if p, ok := cst.(*types.Pointer); ok {
				pv, _ := fv.(*Value)
				if pv == nil {
					reachable = false
					break
				}
				fv, cst, addr = *pv, p.Elem().Underlying(), true
			}
			sst := cst.(*types.Struct)
			fv = fv.(Struct)[ix]
			ft = sst.Field(ix).Type()
		}
		if !reachable {
			continue
		}
		if f.omitEmpty && in.jsonEmpty(ft, fv) {
			continue
		}
		if !first {
			sb.WriteByte(',')
		}
		first = false
		jsonString(sb, f.name)
		sb.WriteByte(':')
		if f.quoted {
			var inner bytes.Buffer
			if err := in.jsonValue(&inner, ft, fv, addr, depth+1); err != nil {
				return err
			}
			switch ft.Underlying().(type) {
			case *types.Basic:
				if b := ft.Underlying().(*types.Basic); b.Info()&types.IsString != 0 {
					jsonString(sb, inner.String())
				} else {
					sb.WriteByte('"')
					sb.Write(inner.Bytes())
					sb.WriteByte('"')
				}
			default:
				sb.Write(inner.Bytes())
			}
			continue
		}
		if err := in.jsonValue(sb, ft, fv, addr, depth+1); err != nil {
			return err
		}
	}
	sb.WriteByte('}')
	return nil
}

func (in *Interp) jsonEmpty(t types.Type, v Value) bool {
	switch u := t.Underlying().(type) {
	case *types.Basic:
		switch {
		case u.Info()&types.IsBoolean != 0:
			return in.concretize(v.(Sc), 1, "json omitempty") == 0
		case u.Info()&types.IsString != 0:
			return v.(Str).Len() == 0
		case u.Info()&types.IsInteger != 0:
			k, _ := basicKind(t)
			return in.concretize(v.(Sc), k.bits, "json omitempty") == 0
		case u.Info()&types.IsFloat != 0:
			return v.(float64) == 0
		}
	case *types.Pointer:
		p, _ := v.(*Value)
		return p == nil
	case *types.Interface:
		ifc, _ := v.(Iface)
		return ifc.T == nil
	case *types.Slice:
		s, _ := v.([]Value)
		return len(s) == 0
	case *types.Map:
		m, _ := v.(*Map)
		return m == nil || m.Len() == 0
	case *types.Array:
		return u.Len() == 0
	}
	return false
}

const jsonHex = "0123456789abcdef"

// jsonString writes s the way encoding/json does with HTML escaping on.
func jsonString(sb *bytes.Buffer, s string) {
	sb.WriteByte('"')
	start := 0
	for i := 0; i < len(s); {
		if b := s[i]; b < utf8.RuneSelf {
			if b >= 0x20 && b != '"' && b != '\\' && b != '<' && b != '>' && b != '&' {
				i++
				continue
			}
			sb.WriteString(s[start:i])
			switch b {
			case '\\', '"':
				sb.WriteByte('\\')
				sb.WriteByte(b)
			case '\b':
				sb.WriteString(`\b`)
			case '\f':
				sb.WriteString(`\f`)
			case '\n':
				sb.WriteString(`\n`)
			case '\r':
				sb.WriteString(`\r`)
			case '\t':
				sb.WriteString(`\t`)
			default:
				sb.WriteString(`\u00`)
				sb.WriteByte(jsonHex[b>>4])
				sb.WriteByte(jsonHex[b&0xF])
			}
			i++
			start = i
			continue
		}
		c, size := utf8.DecodeRuneInString(s[i:])
		if c == utf8.RuneError && size == 1 {
			sb.WriteString(s[start:i])
			sb.WriteString("\\ufffd")
			i += size
			start = i
			continue
		}
		if c == 0x2028 || c == 0x2029 {
			sb.WriteString(s[start:i])
			sb.WriteString("\\u202")
			sb.WriteByte(jsonHex[c&0xF])
			i += size
			start = i
			continue
		}
		i += size
	}
	sb.WriteString(s[start:])
	sb.WriteByte('"')
}

var _ = fmt.Sprintf
