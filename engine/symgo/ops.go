package symgo

import (
	"fmt"
	"go/constant"
	"go/token"
	"go/types"
	"math"
	"unicode/utf8"

	"golang.org/x/tools/go/ssa"

	"verif/sym"
)

func constantBool(c *ssa.Const) bool     { return constant.BoolVal(c.Value) }
func constantString(c *ssa.Const) string { return constant.StringVal(c.Value) }

func (in *Interp) unop(ins *ssa.UnOp, x Value) Value {
	switch ins.Op {
	case token.MUL: // load
		p := x.(*Value)
		if p == nil {
			in.rtPanic("invalid memory address or nil pointer dereference")
		}
		return copyVal(*p)
	case token.NOT:
		b := x.(Sc)
		r := Sc{C: 1 - (b.C & 1)}
		if b.T != nil {
			r.T = in.St.Not(b.T)
		}
		return r
	case token.SUB:
		switch x := x.(type) {
		case Sc:
			k, _ := basicKind(ins.X.Type())
			r := Sc{C: canon(k, -x.C)}
			if x.T != nil {
				r.T = in.St.Un(sym.OpNeg, x.T)
			}
			return r
		case float64:
			return -x
		case complex128:
			return -x
		}
	case token.XOR:
		if x, ok := x.(Sc); ok {
			k, _ := basicKind(ins.X.Type())
			r := Sc{C: canon(k, ^x.C)}
			if x.T != nil {
				r.T = in.St.Un(sym.OpBNot, x.T)
			}
			return r
		}
	case token.ARROW:
		return in.recv(ins, x)
	}
	panic(fmt.Sprintf("unop %s on %T", ins.Op, x))
}

func (in *Interp) binop(op token.Token, xt, yt types.Type, x, y Value) Value {
	switch x := x.(type) {
	case Sc:
		ys, ok := y.(Sc)
		if !ok {
			break
		}
		k, _ := basicKind(xt)
		if k.isBool {
			return in.boolOp(op, x, ys)
		}
		return in.intOp(op, k, yt, x, ys)
	case float64:
		yf := y.(float64)
		is32 := false
		if b, ok := xt.Underlying().(*types.Basic); ok && b.Kind() == types.Float32 {
			is32 = true
		}
		rf := func(f float64) Value {
			if is32 {
				return float64(float32(f))
			}
			return f
		}
		switch op {
		case token.ADD:
			return rf(x + yf)
		case token.SUB:
			return rf(x - yf)
		case token.MUL:
			return rf(x * yf)
		case token.QUO:
			return rf(x / yf)
		case token.EQL:
			return mkBool(x == yf)
		case token.NEQ:
			return mkBool(x != yf)
		case token.LSS:
			return mkBool(x < yf)
		case token.LEQ:
			return mkBool(x <= yf)
		case token.GTR:
			return mkBool(x > yf)
		case token.GEQ:
			return mkBool(x >= yf)
		}
	case Str:
		ys := y.(Str)
		switch op {
		case token.ADD:
			return concatStr(x, ys)
		case token.EQL:
			return in.strEq(x, ys)
		case token.NEQ:
			return in.not(in.strEq(x, ys))
		case token.LSS, token.LEQ, token.GTR, token.GEQ:
			c := in.strCmp(x, ys)
			switch op {
			case token.LSS:
				return mkBool(c < 0)
			case token.LEQ:
				return mkBool(c <= 0)
			case token.GTR:
				return mkBool(c > 0)
			default:
				return mkBool(c >= 0)
			}
		}
	}
	switch op {
	case token.EQL:
		return in.equals(xt, x, y)
	case token.NEQ:
		return in.not(in.equals(xt, x, y))
	}
	panic(fmt.Sprintf("binop %s on %T, %T", op, x, y))
}

func (in *Interp) not(b Sc) Sc {
	r := Sc{C: 1 - (b.C & 1)}
	if b.T != nil {
		r.T = in.St.Not(b.T)
	}
	return r
}

func (in *Interp) boolOp(op token.Token, x, y Sc) Value {
	sym_ := x.T != nil || y.T != nil
	var c bool
	switch op {
	case token.EQL:
		c = x.C == y.C
	case token.NEQ:
		c = x.C != y.C
	case token.AND, token.LAND:
		c = x.C&y.C == 1
	case token.OR, token.LOR:
		c = x.C|y.C == 1
	default:
		panic("boolOp " + op.String())
	}
	r := mkBool(c)
	if sym_ {
		xt, yt := in.termOf(x, 0), in.termOf(y, 0)
		switch op {
		case token.EQL:
			r.T = in.St.Eq(xt, yt)
		case token.NEQ:
			r.T = in.St.Not(in.St.Eq(xt, yt))
		case token.AND, token.LAND:
			r.T = in.St.And(xt, yt)
		default:
			r.T = in.St.Or(xt, yt)
		}
	}
	return r
}

func (in *Interp) intOp(op token.Token, k scKind, yt types.Type, x, y Sc) Value {
	w := k.bits
	symb := (x.T != nil && !x.T.IsConst()) || (y.T != nil && !y.T.IsConst())
	// shifts: the count has its own type
	if op == token.SHL || op == token.SHR {
		yk, _ := basicKind(yt)
		if yk.signed && int64(y.C) < 0 && y.T == nil {
			in.rtPanic("negative shift amount")
		}
		var cnt uint64
		var cntT *sym.Term // symbolic count, brought to width w (nil = concrete)
		var bigT *sym.Term // condition "count >= w" when the count type is wider than w
		if y.T != nil && !y.T.IsConst() {
			if yk.signed {
				neg := in.St.Cmp(sym.OpSlt, y.T, in.St.Const(yk.bits, 0))
				if in.branch(Sc{C: b2u(int64(y.C) < 0), T: neg}, RecCheck, "shift") {
					in.rtPanic("negative shift amount")
				}
			}
			cnt = y.C
			if yk.bits <= w {
				cntT = in.St.Resize(y.T, w, false)
			} else {
				bigT = in.St.Cmp(sym.OpUle, in.St.Const(yk.bits, uint64(w)), y.T)
				cntT = in.St.Resize(y.T, w, false)
			}
		} else {
			cnt = y.C
		}
		var rc uint64
		var sop sym.Op
		if op == token.SHL {
			sop = sym.OpShl
		} else if k.signed {
			sop = sym.OpAShr
		} else {
			sop = sym.OpLShr
		}
		ccnt := cnt
		if ccnt >= uint64(w) {
			ccnt = uint64(w) // EvalBin treats counts >= w as "all bits shifted out"
		}
		rc = sym.EvalBin(sop, w, x.C, ccnt)
		r := Sc{C: canon(k, rc)}
		if cntT != nil || (x.T != nil && !x.T.IsConst()) {
			xt := in.termOf(x, w)
			var ct *sym.Term
			if cntT != nil {
				ct = cntT
			} else {
				ct = in.St.Const(w, ccnt)
			}
			t := in.St.Bin(sop, xt, ct)
			if bigT != nil {
				// count does not fit into w bits: everything is shifted out
				var out *sym.Term
				if sop == sym.OpAShr {
					out = in.St.Bin(sym.OpAShr, xt, in.St.Const(w, uint64(w)-1))
				} else {
					out = in.St.Const(w, 0)
				}
				t = in.St.Ite(bigT, out, t)
			}
			r.T = t
		}
		return r
	}
	var sop sym.Op
	cmp := false
	neg := false
	swap := false
	switch op {
	case token.ADD:
		sop = sym.OpAdd
	case token.SUB:
		sop = sym.OpSub
	case token.MUL:
		sop = sym.OpMul
	case token.QUO:
		if k.signed {
			sop = sym.OpSDiv
		} else {
			sop = sym.OpUDiv
		}
	case token.REM:
		if k.signed {
			sop = sym.OpSRem
		} else {
			sop = sym.OpURem
		}
	case token.AND:
		sop = sym.OpBAnd
	case token.OR:
		sop = sym.OpBOr
	case token.XOR:
		sop = sym.OpBXor
	case token.AND_NOT:
		// x &^ y = x & ^y
		ny := Sc{C: canon(k, ^y.C)}
		if y.T != nil {
			ny.T = in.St.Un(sym.OpBNot, y.T)
		}
		return in.intOp(token.AND, k, yt, x, ny)
	case token.EQL:
		r := mkBool(x.C == y.C)
		if symb {
			r.T = in.St.Eq(in.termOf(x, w), in.termOf(y, w))
		}
		return r
	case token.NEQ:
		r := mkBool(x.C != y.C)
		if symb {
			r.T = in.St.Not(in.St.Eq(in.termOf(x, w), in.termOf(y, w)))
		}
		return r
	case token.LSS:
		cmp = true
		if k.signed {
			sop = sym.OpSlt
		} else {
			sop = sym.OpUlt
		}
	case token.LEQ:
		cmp = true
		if k.signed {
			sop = sym.OpSle
		} else {
			sop = sym.OpUle
		}
	case token.GTR: // x > y  == y < x
		cmp, swap = true, true
		if k.signed {
			sop = sym.OpSlt
		} else {
			sop = sym.OpUlt
		}
	case token.GEQ:
		cmp, swap = true, true
		if k.signed {
			sop = sym.OpSle
		} else {
			sop = sym.OpUle
		}
	default:
		panic("intOp " + op.String())
	}
	_ = neg
	if cmp {
		a, b := x, y
		if swap {
			a, b = y, x
		}
		r := mkBool(sym.EvalCmp(sop, w, a.C, b.C))
		if symb {
			r.T = in.St.Cmp(sop, in.termOf(a, w), in.termOf(b, w))
		}
		return r
	}
	if op == token.QUO || op == token.REM {
		if y.T != nil && !y.T.IsConst() {
			z := in.St.Eq(y.T, in.St.Const(w, 0))
			if in.branch(Sc{C: b2u(canon(k, y.C) == 0), T: z}, RecCheck, "div") {
				in.rtPanic("integer divide by zero")
			}
		} else if canon(k, y.C) == 0 {
			in.rtPanic("integer divide by zero")
		}
	}
	r := Sc{C: canon(k, sym.EvalBin(sop, w, x.C, y.C))}
	if symb {
		r.T = in.St.Bin(sop, in.termOf(x, w), in.termOf(y, w))
	}
	return r
}

func (in *Interp) strEq(a, b Str) Sc {
	if len(a.S) != len(b.S) {
		return mkBool(false)
	}
	r := mkBool(a.S == b.S)
	if a.T == nil && b.T == nil {
		return r
	}
	var conj []*sym.Term
	for i := 0; i < len(a.S); i++ {
		x, y := a.ByteAt(i), b.ByteAt(i)
		if x.T == nil && y.T == nil {
			if x.C != y.C {
				return mkBool(false)
			}
			continue
		}
		conj = append(conj, in.St.Eq(in.termOf(x, 8), in.termOf(y, 8)))
	}
	r.T = in.St.And(conj...)
	if r.T.IsConst() {
		r.T = nil
	}
	return r
}

// strCmp: lexicographic comparison; symbolic bytes are resolved by recorded branches.
func (in *Interp) strCmp(a, b Str) int {
	n := len(a.S)
	if len(b.S) < n {
		n = len(b.S)
	}
	for i := 0; i < n; i++ {
		x, y := a.ByteAt(i), b.ByteAt(i)
		if x.T != nil || y.T != nil {
			eq := Sc{C: b2u(x.C == y.C), T: in.St.Eq(in.termOf(x, 8), in.termOf(y, 8))}
			if in.branch(eq, RecBranch, "strcmp") {
				continue
			}
			lt := Sc{C: b2u(x.C < y.C), T: in.St.Cmp(sym.OpUlt, in.termOf(x, 8), in.termOf(y, 8))}
			if in.branch(lt, RecBranch, "strcmp") {
				return -1
			}
			return 1
		}
		if x.C != y.C {
			if x.C < y.C {
				return -1
			}
			return 1
		}
	}
	switch {
	case len(a.S) < len(b.S):
		return -1
	case len(a.S) > len(b.S):
		return 1
	}
	return 0
}

// equals implements == for comparable values; result may carry a term.
func (in *Interp) equals(t types.Type, x, y Value) Sc {
	switch x := x.(type) {
	case Sc:
		ys := y.(Sc)
		r := mkBool(x.C == ys.C)
		if (x.T != nil && !x.T.IsConst()) || (ys.T != nil && !ys.T.IsConst()) {
			var w uint8
			if x.T != nil {
				w = x.T.W
			} else {
				w = ys.T.W
			}
			r.T = in.St.Eq(in.termOf(x, w), in.termOf(ys, w))
		}
		return r
	case float64:
		return mkBool(x == y.(float64))
	case complex128:
		return mkBool(x == y.(complex128))
	case Str:
		return in.strEq(x, y.(Str))
	case *Value:
		yp, _ := y.(*Value)
		return mkBool(x == yp)
	case *Map:
		ym, _ := y.(*Map)
		return mkBool(x == ym)
	case []Value:
		ysl, _ := y.([]Value)
		return mkBool(x == nil && ysl == nil) // only comparison with nil is legal
	case *Closure:
		yc, _ := y.(*Closure)
		if x == nil || yc == nil {
			return mkBool(x == nil && (y == nil || yc == nil))
		}
		in.rtPanic("comparing uncomparable type func")
	case *ssa.Function, *ssa.Builtin:
		if yc, ok := y.(*Closure); ok && yc == nil {
			return mkBool(false)
		}
		if y == nil {
			return mkBool(false)
		}
		in.rtPanic("comparing uncomparable type func")
	case nil:
		switch y := y.(type) {
		case nil:
			return mkBool(true)
		case *Closure:
			return mkBool(y == nil)
		case *ssa.Function, *ssa.Builtin:
			return mkBool(false)
		case *Value:
			return mkBool(y == nil)
		case Iface:
			return mkBool(y.T == nil)
		}
	case Iface:
		yi, ok := y.(Iface)
		if !ok {
			if y == nil {
				return mkBool(x.T == nil)
			}
			panic(fmt.Sprintf("equals: iface vs %T", y))
		}
		if x.T == nil || yi.T == nil {
			return mkBool(x.T == nil && yi.T == nil)
		}
		if !types.Identical(x.T, yi.T) {
			return mkBool(false)
		}
		if !types.Comparable(x.T) {
			in.rtPanic("comparing uncomparable type " + x.T.String())
		}
		return in.equals(x.T, x.V, yi.V)
	case Struct:
		ys := y.(Struct)
		st := t.Underlying().(*types.Struct)
		res := mkBool(true)
		for i := range x {
			if st.Field(i).Name() == "_" {
				continue
			}
			e := in.equals(st.Field(i).Type(), x[i], ys[i])
			res = in.and(res, e)
			if res.T == nil && res.C == 0 {
				return res
			}
		}
		return res
	case Array:
		ya := y.(Array)
		et := t.Underlying().(*types.Array).Elem()
		res := mkBool(true)
		for i := range x {
			e := in.equals(et, x[i], ya[i])
			res = in.and(res, e)
			if res.T == nil && res.C == 0 {
				return res
			}
		}
		return res
	}
	panic(fmt.Sprintf("equals: unsupported %T vs %T (type %v)", x, y, t))
}

func (in *Interp) and(a, b Sc) Sc {
	r := mkBool(a.C&b.C == 1)
	if a.T != nil || b.T != nil {
		r.T = in.St.And(in.termOf(a, 0), in.termOf(b, 0))
		if r.T.IsConst() {
			r.T = nil
		}
	}
	return r
}

func (in *Interp) conv(dst, src types.Type, x Value) Value {
	ud, us := dst.Underlying(), src.Underlying()
	// unsafe / pointers
	if _, ok := ud.(*types.Pointer); ok {
		if _, ok2 := us.(*types.Pointer); ok2 {
			return x
		}
	}
	if b, ok := ud.(*types.Basic); ok && b.Kind() == types.UnsafePointer {
		in.unsupported("conversion to unsafe.Pointer")
	}
	if b, ok := us.(*types.Basic); ok && b.Kind() == types.UnsafePointer {
		in.unsupported("conversion from unsafe.Pointer")
	}
	dk, dIsSc := basicKind(dst)
	sk, sIsSc := basicKind(src)
	switch {
	case dIsSc && sIsSc && !dk.isBool && !sk.isBool:
		v := x.(Sc)
		r := Sc{C: canon(dk, v.C)}
		if v.T != nil && !v.T.IsConst() {
			r.T = in.St.Resize(v.T, dk.bits, sk.signed)
		}
		return r
	case dIsSc && sIsSc:
		return x
	case dIsSc && isFloat(src):
		f := x.(float64)
		if dk.signed {
			return Sc{C: canon(dk, uint64(int64(f)))}
		}
		return Sc{C: canon(dk, uint64(f))}
	case isFloat(dst) && sIsSc:
		v := x.(Sc)
		if v.T != nil {
			in.concretize(v, sk.bits, "int-to-float")
		}
		var f float64
		if sk.signed {
			f = float64(int64(v.C))
		} else {
			f = float64(v.C)
		}
		if ud.(*types.Basic).Kind() == types.Float32 {
			f = float64(float32(f))
		}
		return f
	case isFloat(dst) && isFloat(src):
		f := x.(float64)
		if ud.(*types.Basic).Kind() == types.Float32 {
			f = float64(float32(f))
		}
		return f
	case isString(dst):
		switch x := x.(type) {
		case Str:
			return x
		case Sc: // string(rune)
			c := in.concretize(x, sk.bits, "rune-to-string")
			var r rune
			if sk.signed {
				r = rune(int64(c))
				if int64(c) < 0 || int64(c) > utf8.MaxRune {
					r = utf8.RuneError
				}
			} else {
				r = rune(c)
				if c > utf8.MaxRune {
					r = utf8.RuneError
				}
			}
			return Str{S: string(r)}
		case []Value:
			st := us.(*types.Slice)
			ek, _ := basicKind(st.Elem())
			if ek.bits == 8 {
				return strFromBytes(x)
			}
			// []rune
			rs := make([]rune, len(x))
			for i, e := range x {
				rs[i] = rune(int64(in.concretize(e.(Sc), 32, "runes-to-string")))
			}
			return Str{S: string(rs)}
		}
	case isString(src):
		s := x.(Str)
		if sl, ok := ud.(*types.Slice); ok {
			ek, _ := basicKind(sl.Elem())
			if ek.bits == 8 {
				return bytesFromStr(s)
			}
			if s.T != nil {
				in.concretizeStr(s, "string-to-runes")
			}
			rs := []rune(s.S)
			out := make([]Value, len(rs))
			for i, r := range rs {
				out[i] = Sc{C: canon(scKind{bits: 32, signed: true}, uint64(r))}
			}
			return out
		}
	}
	// identical underlying (e.g. named struct conversions, slices)
	if types.Identical(ud, us) {
		return x
	}
	if _, ok := ud.(*types.Slice); ok {
		return x
	}
	if _, ok := ud.(*types.Struct); ok {
		return x
	}
	panic(fmt.Sprintf("conv: unsupported %s -> %s (%T)", src, dst, x))
}

// concretizeStr pins all symbolic bytes of s.
func (in *Interp) concretizeStr(s Str, tag string) string {
	if s.T != nil {
		for i, t := range s.T {
			if t != nil {
				in.concretize(Sc{C: uint64(s.S[i]), T: t}, 8, tag)
			}
		}
	}
	return s.S
}

func (in *Interp) sliceBound(v Value, def int, tag string) int {
	if v == nil {
		return def
	}
	sc := v.(Sc)
	return int(int64(sc.C))
}

func (in *Interp) slice(ins *ssa.Slice, x, lo, hi, max Value) Value {
	var n, c int
	var elems []Value
	var str Str
	isStr := false
	isNilSlice := false
	switch x := x.(type) {
	case Str:
		isStr = true
		str = x
		n, c = x.Len(), x.Len()
	case []Value:
		elems = x
		n, c = len(x), cap(x)
		isNilSlice = x == nil
	case *Value:
		if x == nil {
			in.rtPanic("invalid memory address or nil pointer dereference")
		}
		elems = []Value((*x).(Array))
		n, c = len(elems), len(elems)
	default:
		panic(fmt.Sprintf("slice of %T", x))
	}
	// symbolic bounds: check and concretise
	chk := func(v Value, sv ssa.Value, name string) {
		if v == nil {
			return
		}
		sc := v.(Sc)
		if sc.T != nil && !sc.T.IsConst() {
			// 0 <= v <= c as a recorded check, then pin
			k, _ := basicKind(sv.Type())
			x64 := in.St.Resize(sc.T, 64, k.signed)
			ok := in.St.And(in.St.Cmp(sym.OpSle, in.St.Const(64, 0), x64), in.St.Cmp(sym.OpSle, x64, in.St.Const(64, uint64(c))))
			cok := int64(sc.C) >= 0 && int64(sc.C) <= int64(c)
			in.branch(Sc{C: b2u(cok), T: ok}, RecCheck, "slice-"+name)
			in.concretize(sc, sc.T.W, "slice-"+name)
		}
	}
	chk(lo, ins.Low, "low")
	chk(hi, ins.High, "high")
	chk(max, ins.Max, "max")
	l := in.sliceBound(lo, 0, "low")
	h := in.sliceBound(hi, n, "high")
	m := in.sliceBound(max, c, "max")
	if isStr {
		if h < 0 || h > n {
			in.rtPanic(fmt.Sprintf("slice bounds out of range [:%d] with length %d", h, n))
		}
		if l < 0 || l > h {
			in.rtPanic(fmt.Sprintf("slice bounds out of range [%d:%d]", l, h))
		}
		return str.Slice(l, h)
	}
	if max != nil {
		if m < 0 || m > c {
			in.rtPanic(fmt.Sprintf("slice bounds out of range [::%d] with capacity %d", m, c))
		}
		if h < 0 || h > m {
			in.rtPanic(fmt.Sprintf("slice bounds out of range [:%d:%d]", h, m))
		}
	} else if h < 0 || h > c {
		in.rtPanic(fmt.Sprintf("slice bounds out of range [:%d] with capacity %d", h, c))
	}
	if l < 0 || l > h {
		in.rtPanic(fmt.Sprintf("slice bounds out of range [%d:%d]", l, h))
	}
	if isNilSlice {
		return []Value(nil)
	}
	return elems[l:h:m]
}

func (in *Interp) mapFind(m *Map, k Value) int {
	if m == nil {
		return -1
	}
	if m.symKeys == 0 {
		if hk, ok := hashKey(k); ok {
			if i, ok := m.idx[hk]; ok {
				return i
			}
			return -1
		}
	}
	for i, mk := range m.Keys {
		eq := in.equals(m.KT, mk, k)
		if in.branch(eq, RecBranch, "mapkey") {
			return i
		}
	}
	return -1
}

func (in *Interp) mapSet(m *Map, k, v Value) {
	i := in.mapFind(m, k)
	if i >= 0 {
		m.Vals[i] = v
		return
	}
	m.Keys = append(m.Keys, copyVal(k))
	m.Vals = append(m.Vals, v)
	if hk, ok := hashKey(k); ok {
		m.idx[hk] = len(m.Keys) - 1
	} else {
		m.symKeys++
	}
}

func (in *Interp) mapDelete(m *Map, k Value) {
	i := in.mapFind(m, k)
	if i < 0 {
		return
	}
	m.Keys = append(m.Keys[:i:i], m.Keys[i+1:]...)
	m.Vals = append(m.Vals[:i:i], m.Vals[i+1:]...)
	m.idx = map[interface{}]int{}
	m.symKeys = 0
	for j, mk := range m.Keys {
		if hk, ok := hashKey(mk); ok {
			m.idx[hk] = j
		} else {
			m.symKeys++
		}
	}
}

func (in *Interp) lookup(ins *ssa.Lookup, x, k Value) Value {
	switch x := x.(type) {
	case Str:
		i := in.indexArg(k, ins.Index.Type(), x.Len())
		return x.ByteAt(i)
	case *Map:
		i := in.mapFind(x, k)
		var v Value
		ok := i >= 0
		if ok {
			v = copyVal(x.Vals[i])
		} else {
			v = zero(ins.X.Type().Underlying().(*types.Map).Elem())
		}
		if ins.CommaOk {
			return Tuple{v, mkBool(ok)}
		}
		return v
	}
	panic(fmt.Sprintf("lookup on %T", x))
}

func (in *Interp) rangeIter(x Value) *Iter {
	switch x := x.(type) {
	case Str:
		return &Iter{s: x, isS: true}
	case *Map:
		it := &Iter{m: x}
		if x != nil {
			it.keys = append([]Value(nil), x.Keys...)
			it.vals = append([]Value(nil), x.Vals...)
			if in.permSite >= 0 && len(it.keys) > 1 && in.curRange != nil {
				// sites are numbered in the order of their first execution since vMapOrderSite
				id, ok := in.rangeSites[ssa.Instruction(in.curRange)]
				if !ok {
					id = len(in.rangeSites)
					in.rangeSites[in.curRange] = id
				}
				if id == in.permSite {
					in.permInstances++
					in.permute(it)
				}
			}
		}
		return it
	}
	panic(fmt.Sprintf("range over %T", x))
}

// recv: a receive in the fork-join model. Everything that was sent is queued already
// (goroutines ran to completion when started). The values queued by DIFFERENT goroutines
// may arrive in any order: at the site selected by vMapOrderSite (receive sites share
// the numbering of the range-over-map sites) the not yet ordered part of the queue is
// put in a symbolic order (Lehmer code). A goroutine that sent twice, or a receive from
// an empty queue (it would block), is outside the model and refused.
func (in *Interp) recv(ins *ssa.UnOp, x Value) Value {
	ch, _ := x.(*Chan)
	if ch == nil {
		in.unsupported("receive from a nil channel (blocks forever)")
	}
	if len(ch.buf) == 0 {
		in.unsupported("channel receive that would block (outside the fork-join model)")
	}
	if n := len(ch.buf) - ch.settled; n > 1 {
		seen := map[int]bool{}
		for _, g := range ch.senders[ch.settled:] {
			if seen[g] {
				in.unsupported("two values sent by one goroutine are queued (outside the fork-join model)")
			}
			seen[g] = true
		}
		in.Notes["schedule-dependent-receive-order"]++
		if in.permSite >= 0 {
			id, ok := in.rangeSites[ins]
			if !ok {
				id = len(in.rangeSites)
				in.rangeSites[ins] = id
			}
			if id == in.permSite {
				in.permInstances++
				it := &Iter{keys: append([]Value(nil), ch.buf[ch.settled:]...), vals: make([]Value, n)}
				for i, g := range ch.senders[ch.settled:] {
					it.vals[i] = Sc{C: uint64(g)}
				}
				in.permute(it)
				copy(ch.buf[ch.settled:], it.keys)
				for i := range it.vals {
					ch.senders[ch.settled+i] = int(it.vals[i].(Sc).C)
				}
			}
		}
		ch.settled = len(ch.buf)
	}
	v := ch.buf[0]
	ch.buf = ch.buf[1:]
	ch.senders = ch.senders[1:]
	if ch.settled > 0 {
		ch.settled--
	}
	if ins.CommaOk {
		return Tuple{v, mkBool(true)}
	}
	return v
}

// permute orders the iteration by symbolic choices: a full symbolic permutation
// (Lehmer code) for <= 4 entries, otherwise a symbolic rotation optionally reversed.
func (in *Interp) permute(it *Iter) {
	n := len(it.keys)
	in.mapOrd++
	in.Notes["nondet-map-order"]++
	if n > 4 {
		rot := in.NewVar(fmt.Sprintf("maprot_n%d", n), 8)
		ok := Sc{C: b2u(rot.C < uint64(n)), T: in.St.Cmp(sym.OpUlt, rot.T, in.St.Const(8, uint64(n)))}
		if !in.branch(ok, RecAssume, "mapord") {
			in.abort(StAssumeFail, "mapord")
		}
		r := int(in.concretize(rot, 8, "mapord"))
		rev := in.NewVar(fmt.Sprintf("maprev_n%d", n), 0)
		keys := append(append([]Value(nil), it.keys[r:]...), it.keys[:r]...)
		vals := append(append([]Value(nil), it.vals[r:]...), it.vals[:r]...)
		if in.branch(rev, RecBranch, "mapord") {
			for i, j := 0, n-1; i < j; i, j = i+1, j-1 {
				keys[i], keys[j] = keys[j], keys[i]
				vals[i], vals[j] = vals[j], vals[i]
			}
		}
		it.keys, it.vals = keys, vals
		return
	}
	for i := 0; i < n-1; i++ {
		// one Lehmer code per (site, map size): every instance of the site uses the same symbolic order
		v := in.NewVar(fmt.Sprintf("mapord_n%d_%d", n, i), 8)
		rem := uint64(n - i)
		ok := Sc{C: b2u(v.C < rem), T: in.St.Cmp(sym.OpUlt, v.T, in.St.Const(8, rem))}
		if !in.branch(ok, RecAssume, "mapord") {
			in.abort(StAssumeFail, "mapord")
		}
		j := i + int(in.concretize(v, 8, "mapord"))
		it.keys[i], it.keys[j] = it.keys[j], it.keys[i]
		it.vals[i], it.vals[j] = it.vals[j], it.vals[i]
	}
}

func (in *Interp) next(ins *ssa.Next, it *Iter) Value {
	if it.isS {
		if it.pos >= it.s.Len() {
			return Tuple{mkBool(false), Sc{}, Sc{}}
		}
		i := it.pos
		b0 := it.s.ByteAt(i)
		k32 := scKind{bits: 32, signed: true}
		if b0.T != nil {
			// ASCII fast path decided by a recorded branch
			isASCII := Sc{C: b2u(b0.C < 0x80), T: in.St.Cmp(sym.OpUlt, b0.T, in.St.Const(8, 0x80))}
			if in.branch(isASCII, RecBranch, "utf8") {
				it.pos++
				return Tuple{mkBool(true), Sc{C: uint64(i)}, Sc{C: b0.C, T: in.St.Resize(b0.T, 32, false)}}
			}
		} else if b0.C < 0x80 {
			it.pos++
			return Tuple{mkBool(true), Sc{C: uint64(i)}, Sc{C: b0.C}}
		}
		// multi-byte (or symbolic non-ASCII): run the real utf8.DecodeRuneInString symbolically
		if f := in.W.utf8Decode(); f != nil && it.s.T != nil {
			res := in.callFunction(f, []Value{it.s.Slice(i, it.s.Len())}, nil).(Tuple)
			sz := int(in.concretize(res[1].(Sc), 64, "utf8-size"))
			it.pos += sz
			return Tuple{mkBool(true), Sc{C: uint64(i)}, res[0]}
		}
		r, sz := utf8.DecodeRuneInString(it.s.S[i:])
		it.pos += sz
		return Tuple{mkBool(true), Sc{C: uint64(i)}, Sc{C: canon(k32, uint64(r))}}
	}
	if it.pos >= len(it.keys) {
		return Tuple{mkBool(false), nil, nil}
	}
	// Go semantics: entries deleted during iteration are not produced.
	for it.pos < len(it.keys) {
		k := it.keys[it.pos]
		v := it.vals[it.pos]
		it.pos++
		// still present? (cheap identity check on concrete maps)
		present := false
		if hk, ok := hashKey(k); ok && it.m.symKeys == 0 {
			if j, ok := it.m.idx[hk]; ok {
				present = true
				v = it.m.Vals[j]
			}
		} else {
			present = true
		}
		if present {
			return Tuple{mkBool(true), copyVal(k), copyVal(v)}
		}
	}
	return Tuple{mkBool(false), nil, nil}
}

func (in *Interp) implements(t types.Type, it *types.Interface) bool {
	return types.Implements(t, it)
}

func (in *Interp) typeAssert(ins *ssa.TypeAssert, x Iface) Value {
	var ok bool
	var v Value
	if it, isI := ins.AssertedType.Underlying().(*types.Interface); isI {
		ok = x.T != nil && types.Implements(x.T, it)
		if ok {
			v = x
		}
	} else {
		ok = x.T != nil && types.Identical(x.T, ins.AssertedType)
		if ok {
			v = x.V
		}
	}
	if ins.CommaOk {
		if !ok {
			v = zero(ins.AssertedType)
		}
		return Tuple{v, mkBool(ok)}
	}
	if !ok {
		have := "nil"
		if x.T != nil {
			have = x.T.String()
		}
		panic(goPanic{v: Iface{T: in.W.RuntimeErrorString, V: Str{S: fmt.Sprintf("interface conversion: interface is %s, not %s", have, ins.AssertedType)}}, site: in.site(), stack: in.stack()})
	}
	return v
}

func (in *Interp) callBuiltin(b *ssa.Builtin, args []Value) Value {
	switch b.Name() {
	case "append":
		if len(args) == 1 {
			return args[0]
		}
		var s []Value
		if args[0] != nil {
			s = args[0].([]Value)
		}
		var add []Value
		switch a := args[1].(type) {
		case Str:
			add = bytesFromStr(a)
		case []Value:
			add = a
		case nil:
		}
		if len(add) == 0 {
			return s
		}
		if len(s)+len(add) <= cap(s) {
			r := s[:len(s)+len(add)]
			for i, e := range add {
				assign(&r[len(s)+i], copyVal(e))
			}
			return r
		}
		// grow like Go (exact growth policy is unobservable except through cap)
		nc := growCap(cap(s), len(s)+len(add))
		r := make([]Value, len(s)+len(add), nc)
		copy(r, s)
		for i, e := range add {
			r[len(s)+i] = copyVal(e)
		}
		// fill spare capacity with zero of the element type lazily: nil entries are
		// replaced on reslice by zeroFill in IndexAddr? Simpler: copy last zero shape.
		if len(r) < cap(r) {
			var z Value
			if len(r) > 0 {
				z = zeroLike(r[0])
			}
			full := r[:cap(r)]
			for i := len(r); i < len(full); i++ {
				full[i] = copyVal(z)
			}
		}
		return r
	case "copy":
		dst := args[0].([]Value)
		var src []Value
		switch a := args[1].(type) {
		case Str:
			src = bytesFromStr(a)
		case []Value:
			src = a
		}
		n := len(dst)
		if len(src) < n {
			n = len(src)
		}
		// handle overlap like memmove
		tmp := make([]Value, n)
		for i := 0; i < n; i++ {
			tmp[i] = copyVal(src[i])
		}
		for i := 0; i < n; i++ {
			assign(&dst[i], tmp[i])
		}
		return Sc{C: uint64(n)}
	case "len":
		switch a := args[0].(type) {
		case Str:
			return Sc{C: uint64(a.Len())}
		case []Value:
			return Sc{C: uint64(len(a))}
		case Array:
			return Sc{C: uint64(len(a))}
		case *Map:
			if a == nil {
				return Sc{}
			}
			return Sc{C: uint64(a.Len())}
		case *Value:
			if a == nil {
				return Sc{}
			}
			if arr, ok := (*a).(Array); ok {
				return Sc{C: uint64(len(arr))}
			}
		case nil:
			return Sc{}
		}
		panic(fmt.Sprintf("len of %T", args[0]))
	case "cap":
		switch a := args[0].(type) {
		case []Value:
			return Sc{C: uint64(cap(a))}
		case Array:
			return Sc{C: uint64(len(a))}
		case *Value:
			if arr, ok := (*a).(Array); ok {
				return Sc{C: uint64(len(arr))}
			}
		}
		panic(fmt.Sprintf("cap of %T", args[0]))
	case "delete":
		m := args[0].(*Map)
		if m != nil {
			in.mapDelete(m, args[1])
		}
		return nil
	case "panic":
		panic(goPanic{v: args[0], site: in.site(), stack: in.stack()})
	case "recover":
		return in.doRecover()
	case "print", "println":
		return nil
	case "min", "max":
		if len(args) == 2 {
			if a, ok := args[0].(Sc); ok {
				bb := args[1].(Sc)
				if a.T == nil && bb.T == nil {
					// signedness unknown here: treat as signed 64 (canonical form preserves order for in-range values)
					less := int64(a.C) < int64(bb.C)
					if (b.Name() == "min") == less {
						return a
					}
					return bb
				}
			}
		}
		in.unsupported("builtin %s on symbolic or non-integer operands", b.Name())
	case "clear":
		switch a := args[0].(type) {
		case *Map:
			if a != nil {
				a.Keys, a.Vals, a.idx, a.symKeys = nil, nil, map[interface{}]int{}, 0
			}
		case []Value:
			for i := range a {
				a[i] = zeroLike(a[i])
			}
		}
		return nil
	case "ssa:wrapnilchk":
		if p, ok := args[0].(*Value); ok && p == nil {
			in.rtPanic("value method " + args[1].(Str).S + "." + args[2].(Str).S + " called using nil pointer")
		}
		return args[0]
	}
	in.unsupported("builtin %s", b.Name())
	return nil
}

func growCap(old, need int) int {
	nc := old
	if nc == 0 {
		nc = need
	}
	for nc < need {
		if nc < 256 {
			nc *= 2
		} else {
			nc += nc/4 + 192
		}
	}
	return nc
}

func zeroLike(v Value) Value {
	switch v := v.(type) {
	case Sc:
		return Sc{}
	case float64:
		return float64(0)
	case complex128:
		return complex128(0)
	case Str:
		return Str{}
	case Struct:
		n := make(Struct, len(v))
		for i, e := range v {
			n[i] = zeroLike(e)
		}
		return n
	case Array:
		n := make(Array, len(v))
		for i, e := range v {
			n[i] = zeroLike(e)
		}
		return n
	case []Value:
		return []Value(nil)
	case *Value:
		return (*Value)(nil)
	case *Map:
		return (*Map)(nil)
	case Iface:
		return Iface{}
	case *Closure, *ssa.Function:
		return (*Closure)(nil)
	}
	return nil
}

func (in *Interp) doRecover() Value {
	// recover() is effective only when called directly by a deferred function
	// of a panicking frame: in.cur is the deferred function's frame.
	fr := in.cur
	if fr != nil && fr.caller != nil && fr.caller.panicking {
		fr.caller.panicking = false
		gp := fr.caller.panicVal.(goPanic)
		fr.caller.panicVal = nil
		return gp.v
	}
	return Iface{}
}

var _ = math.MaxInt
