package symgo

import (
	"fmt"
	"go/token"
	"go/types"
	"os"
	"runtime/debug"
	"sort"
	"strings"
	"sync"

	"github.com/lucasjones/reggen"
	"golang.org/x/tools/go/ssa"

	"verif/sym"
)

var traceFn = os.Getenv("SYMGO_TRACE")
var Debug = os.Getenv("SYMGO_DEBUG") != ""

// World is the immutable, shared part: the SSA program and caches.
type World struct {
	Prog *ssa.Program
	Fset *token.FileSet

	mu      sync.Mutex
	fnCache sync.Map
	fnInfos map[*ssa.Function]*fnInfo
	methods map[methKey]*ssa.Function

	RuntimeErrorString types.Type // runtime.errorString
	ErrorsErrorString  types.Type // *errors.errorString
	FmtWrapError       types.Type // *fmt.wrapError

	InitPkgs map[string]bool // package paths whose init is interpreted
	fileStat types.Type
}

type methKey struct {
	t    types.Type
	name string
	pkg  *types.Package
}

type fnInfo struct {
	idx    map[ssa.Value]int
	nreg   int
	name   string
	ext    ExtFn // external model or harness intrinsic (nil = interpret)
	isInit bool
}

// RecordKind classifies branch records.
type RecordKind uint8

const (
	RecBranch RecordKind = iota // ordinary If / comparison
	RecCheck                    // runtime check (bounds, nil, div) — false side is a panic
	RecConcretize               // x == conc
	RecAssume
	RecAssert
)

type Record struct {
	Lit  *sym.Term // the literal that held on this run
	Kind RecordKind
	// for RecConcretize: the term and the concrete value chosen
	X   *sym.Term
	Val uint64
	Tag string
}

type Status int

const (
	StOK Status = iota
	StPanic
	StAssertFail
	StAssumeFail
	StBudget
	StUnsupported
	StEngineError
)

func (s Status) String() string {
	return [...]string{"ok", "panic", "assert-fail", "assume-fail", "budget", "unsupported", "engine-error"}[s]
}

// abortRun is an engine-level unwinding (never visible to interpreted code).
type abortRun struct {
	st  Status
	msg string
}

// goPanic is a panic of the interpreted program.
type goPanic struct {
	v     Value // usually Iface
	site  string
	stack []string
}

// Config of one run.
type Config struct {
	MaxSteps int
	MaxDepth int
	// Stubs replace functions by native models; key = fn.String().
	Stubs map[string]ExtFn
	// Summaries: pure scalar functions folded into ite terms at the call site (see summary.go).
	Summaries map[string]bool
	// Params: concrete harness parameters (bounds).
	Params map[string]int64
	// NondetMapOrder: map range order controlled by symbolic inputs.
	NondetMapOrder bool
}

type ExtFn func(in *Interp, fn *ssa.Function, args []Value) Value

// FSAccess is one call into the file-system stubs.
type FSAccess struct {
	Op   string
	Path Str
}

type vfile struct {
	isDir   bool
	content []Value
}

// Interp is the per-run state.
type Interp struct {
	W   *World
	St  *sym.Store
	Cfg *Config

	Inputs   map[string]uint64 // concrete assignment driving this run
	VarOrder []string          // variables created, in order
	VarW     map[string]uint8

	globals map[*ssa.Global]*Value
	Trace   []Record
	Steps   int
	depth   int
	cur     *frame

	Obs      []string
	Reached  map[string]bool
	FnsSeen  map[*ssa.Function]int
	VFS      map[string]*vfile
	FSLog    []FSAccess // every path handed to the file-system stubs
	side     map[string]Value
	onceDone map[*Value]bool
	inInit   int
	curRange      *ssa.Range
	permSite      int
	pools         map[*Value][]Value // sync.Pool contents (LIFO)
	goSeq, goCur  int // goroutines started so far / the one running now (0 = not in a goroutine)
	permInstances int
	rangeSites    map[ssa.Instruction]int // range-over-map and channel-receive sites, numbered in the order of first execution
	notDir   bool
	ptrIDs   map[*Value]int
	reggens  map[*Value]*reggen.Generator
	RealFS   bool
	abortSite string
	initForce bool
	initDone map[*ssa.Package]bool
	Notes    map[string]int // imprecision notes (stub names used etc.)
	mapOrd   int
	heapSeq  int
}

type deferred struct {
	fn   Value
	args []Value
	pos  token.Pos
}

type frame struct {
	in        *Interp
	fn        *ssa.Function
	info      *fnInfo
	regs      []Value
	env       []Value // free vars
	block     *ssa.BasicBlock
	prev      *ssa.BasicBlock
	defers    []deferred
	result    Value
	panicking bool
	panicVal  interface{}
	caller    *frame
	curInstr  ssa.Instruction
}

func NewWorld(prog *ssa.Program, fset *token.FileSet) *World {
	w := &World{Prog: prog, Fset: fset, fnInfos: map[*ssa.Function]*fnInfo{}, methods: map[methKey]*ssa.Function{}, InitPkgs: map[string]bool{}}
	if p := prog.ImportedPackage("runtime"); p != nil {
		if t := p.Type("errorString"); t != nil {
			w.RuntimeErrorString = t.Type()
		}
	}
	if p := prog.ImportedPackage("errors"); p != nil {
		if t := p.Type("errorString"); t != nil {
			w.ErrorsErrorString = types.NewPointer(t.Type())
		}
	}
	if p := prog.ImportedPackage("fmt"); p != nil {
		if t := p.Type("wrapError"); t != nil {
			w.FmtWrapError = types.NewPointer(t.Type())
		}
	}
	return w
}

func (w *World) utf8Decode() *ssa.Function {
	if p := w.Prog.ImportedPackage("unicode/utf8"); p != nil {
		return p.Func("DecodeRuneInString")
	}
	return nil
}

func (w *World) info(fn *ssa.Function) *fnInfo {
	if fi, ok := w.fnCache.Load(fn); ok {
		return fi.(*fnInfo)
	}
	fi := &fnInfo{idx: map[ssa.Value]int{}}
	n := 0
	for _, p := range fn.Params {
		fi.idx[p] = n
		n++
	}
	for _, b := range fn.Blocks {
		for _, ins := range b.Instrs {
			if v, ok := ins.(ssa.Value); ok {
				fi.idx[v] = n
				n++
			}
		}
	}
	fi.nreg = n
	fi.name = fn.String()
	if ext, ok := externals[fi.name]; ok {
		fi.ext = ext
	} else if fn.Origin() != nil {
		if ext, ok := externals[fn.Origin().String()]; ok {
			fi.ext = ext
		}
	}
	if fi.ext == nil {
		fi.ext = harnessIntrinsic(fn)
	}
	fi.isInit = fn.Name() == "init" && fn.Pkg != nil && fn.Signature.Recv() == nil && fn.Parent() == nil
	w.fnCache.Store(fn, fi)
	return fi
}

func NewInterp(w *World, cfg *Config, inputs map[string]uint64) *Interp {
	if inputs == nil {
		inputs = map[string]uint64{}
	}
	return &Interp{
		W: w, St: sym.NewStore(), Cfg: cfg, Inputs: inputs,
		VarW: map[string]uint8{}, globals: map[*ssa.Global]*Value{},
		Reached: map[string]bool{}, FnsSeen: map[*ssa.Function]int{},
		VFS: map[string]*vfile{}, initDone: map[*ssa.Package]bool{}, Notes: map[string]int{},
		permSite: -1, rangeSites: map[ssa.Instruction]int{},
	}
}

func (in *Interp) abort(st Status, format string, a ...interface{}) {
	in.abortSite = strings.Join(in.stack(), " < ")
	panic(abortRun{st, fmt.Sprintf(format, a...)})
}

func (in *Interp) unsupported(format string, a ...interface{}) {
	in.abort(StUnsupported, format, a...)
}

func (in *Interp) stack() []string {
	var out []string
	for f := in.cur; f != nil && len(out) < 12; f = f.caller {
		pos := ""
		if f.curInstr != nil && f.curInstr.Pos().IsValid() {
			p := in.W.Fset.Position(f.curInstr.Pos())
			pos = fmt.Sprintf("%s:%d", shortFile(p.Filename), p.Line)
		}
		out = append(out, f.fn.String()+"@"+pos)
	}
	return out
}

func shortFile(f string) string {
	if i := strings.Index(f, "/repo/"); i >= 0 {
		return f[i+6:]
	}
	if i := strings.Index(f, "/pkg/mod/"); i >= 0 {
		return f[i+9:]
	}
	if i := strings.LastIndex(f, "/src/"); i >= 0 {
		return f[i+5:]
	}
	return f
}

// site: innermost frame with position information
func (in *Interp) site() string {
	st := in.stack()
	for _, s := range st {
		if !strings.HasSuffix(s, "@") {
			return s
		}
	}
	if len(st) > 0 {
		return st[0]
	}
	return "?"
}

// rtPanic raises a Go run-time panic in the interpreted program.
func (in *Interp) rtPanic(msg string) {
	panic(goPanic{v: Iface{T: in.W.RuntimeErrorString, V: Str{S: msg}}, site: in.site(), stack: in.stack()})
}

// branch records a decision on a (possibly symbolic) boolean and returns its concrete value.
func (in *Interp) branch(c Sc, kind RecordKind, tag string) bool {
	if c.T != nil && !c.T.IsConst() {
		lit := c.T
		if c.C == 0 {
			lit = in.St.Not(lit)
		}
		in.Trace = append(in.Trace, Record{Lit: lit, Kind: kind, Tag: tag})
	}
	return c.C != 0
}

// concretize pins a symbolic scalar to its concrete shadow (recorded, so the search enumerates the alternatives).
func (in *Interp) concretize(v Sc, w uint8, tag string) uint64 {
	if v.T == nil || v.T.IsConst() {
		return v.C
	}
	cv := in.St.Const(w, v.C)
	if Debug {
		tag += "@" + in.site()
	}
	in.Trace = append(in.Trace, Record{Lit: in.St.Eq(v.T, cv), Kind: RecConcretize, X: v.T, Val: v.C, Tag: tag})
	return v.C
}

// term of a scalar at bit width w (w==0: bool)
func (in *Interp) termOf(v Sc, w uint8) *sym.Term {
	if v.T != nil {
		return v.T
	}
	return in.St.Const(w, v.C)
}

// NewVar creates/returns the symbolic input variable name with width w (0=bool).
func (in *Interp) NewVar(name string, w uint8) Sc {
	if _, ok := in.VarW[name]; !ok {
		in.VarW[name] = w
		in.VarOrder = append(in.VarOrder, name)
	}
	t := in.St.Var(name, w)
	c := in.Inputs[name]
	if w == 0 {
		c &= 1
	} else if w < 64 {
		c &= (uint64(1) << w) - 1
	}
	return Sc{C: c, T: t}
}

func (in *Interp) global(g *ssa.Global) *Value {
	if p, ok := in.globals[g]; ok {
		return p
	}
	// lazily make sure the package initialiser ran (if white-listed)
	if g.Pkg != nil && !in.initDone[g.Pkg] {
		path := g.Pkg.Pkg.Path()
		if in.W.InitPkgs[path] {
			in.runInit(g.Pkg)
			if p, ok := in.globals[g]; ok {
				return p
			}
		} else if ext, ok := globalModels[path+"."+g.Name()]; ok {
			p := new(Value)
			*p = ext(in, g)
			in.globals[g] = p
			return p
		} else if in.inInit == 0 {
			in.unsupported("read of package variable %s.%s of a package whose init is not interpreted", path, g.Name())
		}
	}
	p := new(Value)
	*p = zero(g.Type().(*types.Pointer).Elem())
	in.globals[g] = p
	return p
}

func (in *Interp) runInit(pkg *ssa.Package) {
	if in.initDone[pkg] {
		return
	}
	in.initDone[pkg] = true
	if f := pkg.Func("init"); f != nil {
		in.initForce = true
		in.callFunction(f, nil, nil)
	}
}

// RunResult summarises one concrete run.
type RunResult struct {
	Status    Status
	Msg       string
	Site      string
	Stack     []string
	AssertID  string
	Trace     []Record
	Obs       []string
	Reached   map[string]bool
	Steps     int
	Ret       Value
	VarOrder  []string
	VarW      map[string]uint8
	Inputs    map[string]uint64
	FnsSeen   map[*ssa.Function]int
	FSLog     []FSAccess
	Notes     map[string]int
	St        *sym.Store
	GoStack   string
}

// Run executes fn(args...) and never panics.
func (in *Interp) Run(fn *ssa.Function, args []Value) (res *RunResult) {
	res = &RunResult{}
	defer func() {
		if r := recover(); r != nil {
			switch r := r.(type) {
			case abortRun:
				res.Status = r.st
				res.Msg = r.msg
				res.Site = in.abortSite
				if r.st == StAssertFail {
					res.AssertID = r.msg
				}
			case goPanic:
				res.Status = StPanic
				res.Msg = in.panicString(r.v)
				res.Site = r.site
				res.Stack = r.stack
			default:
				res.Status = StEngineError
				res.Msg = fmt.Sprint(r)
				res.Site = in.site()
				res.GoStack = string(debug.Stack())
			}
		}
		res.Trace = in.Trace
		res.Obs = in.Obs
		res.Reached = in.Reached
		res.Steps = in.Steps
		res.VarOrder = in.VarOrder
		res.VarW = in.VarW
		res.Inputs = in.Inputs
		res.FnsSeen = in.FnsSeen
		res.FSLog = in.FSLog
		res.Notes = in.Notes
		res.St = in.St
	}()
	if fn.Pkg != nil {
		in.runInit(fn.Pkg)
	}
	res.Ret = in.callFunction(fn, args, nil)
	return res
}

func (in *Interp) panicString(v Value) string {
	switch v := v.(type) {
	case Iface:
		if v.T == nil {
			return "nil"
		}
		if v.T == in.W.RuntimeErrorString {
			return "runtime error: " + v.V.(Str).S
		}
		if s, ok := v.V.(Str); ok {
			return s.S
		}
		// error value?
		if m := in.W.lookupMethod(v.T, "Error", nil); m != nil {
			func() {
				defer func() { recover() }()
				r := in.callFunction(m, []Value{v.V}, nil)
				if s, ok := r.(Str); ok {
					v = Iface{T: types.Typ[types.String], V: s}
				}
			}()
			if s, ok := v.V.(Str); ok {
				return s.S
			}
		}
		return fmt.Sprintf("<%s>", v.T)
	case Str:
		return v.S
	}
	return fmt.Sprintf("%v", v)
}

func (w *World) lookupMethod(t types.Type, name string, pkg *types.Package) *ssa.Function {
	k := methKey{t, name, pkg}
	w.mu.Lock()
	if f, ok := w.methods[k]; ok {
		w.mu.Unlock()
		return f
	}
	w.mu.Unlock()
	ms := w.Prog.MethodSets.MethodSet(t)
	var sel *types.Selection
	if pkg != nil {
		sel = ms.Lookup(pkg, name)
	}
	if sel == nil {
		for i := 0; i < ms.Len(); i++ {
			if ms.At(i).Obj().Name() == name && (ms.At(i).Obj().Exported() || pkg == nil || ms.At(i).Obj().Pkg() == pkg) {
				sel = ms.At(i)
				break
			}
		}
	}
	var f *ssa.Function
	if sel != nil {
		f = w.Prog.MethodValue(sel)
	}
	w.mu.Lock()
	w.methods[k] = f
	w.mu.Unlock()
	return f
}

// call invokes any function value.
func (in *Interp) call(fv Value, args []Value) Value {
	switch f := fv.(type) {
	case *ssa.Function:
		return in.callFunction(f, args, nil)
	case *Closure:
		if f == nil {
			in.rtPanic("invalid memory address or nil pointer dereference")
		}
		return in.callFunction(f.Fn, args, f.Env)
	case *ssa.Builtin:
		return in.callBuiltin(f, args)
	case nil:
		in.rtPanic("invalid memory address or nil pointer dereference")
	}
	panic(fmt.Sprintf("call: bad function value %T", fv))
}

func (in *Interp) callFunction(fn *ssa.Function, args []Value, env []Value) Value {
	fi := in.W.info(fn)
	name := fi.name
	if in.Cfg != nil && len(in.Cfg.Stubs) > 0 {
		if ext, ok := in.Cfg.Stubs[name]; ok {
			in.Notes["stub:"+name]++
			return ext(in, fn, args)
		}
	}
	if fi.ext != nil {
		return fi.ext(in, fn, args)
	}
	if in.Cfg.Summaries != nil && in.Cfg.Summaries[name] {
		if r, ok := in.trySummary(fn, args); ok {
			return r
		}
	}
	if fi.isInit {
		// package initialiser: only for white-listed packages, and lazily: the
		// calls an initialiser makes to the initialisers of its imports are
		// skipped; a package is initialised when one of its variables is first
		// touched (see global) or when it hosts the harness.
		if !in.W.InitPkgs[fn.Pkg.Pkg.Path()] || in.inInit > 0 && !in.initForce {
			return nil
		}
		in.initForce = false
		in.initDone[fn.Pkg] = true
		in.inInit++
		defer func() { in.inInit-- }()
	}
	if fn.Blocks == nil {
		in.unsupported("function without body: %s", name)
	}
	in.depth++
	if in.depth > in.Cfg.MaxDepth {
		in.abort(StBudget, "call depth %d exceeded in %s", in.Cfg.MaxDepth, name)
	}
	in.FnsSeen[fn]++
	fr := &frame{in: in, fn: fn, info: fi, regs: make([]Value, fi.nreg), env: env, caller: in.cur}
	if len(args) != len(fn.Params) {
		panic(fmt.Sprintf("call %s: %d args for %d params", name, len(args), len(fn.Params)))
	}
	copy(fr.regs, args)
	fr.block = fn.Blocks[0]
	in.cur = fr
	defer func() {
		in.cur = fr.caller
		in.depth--
	}()
	for fr.block != nil {
		fr.run()
	}
	return fr.result
}

func (fr *frame) run() {
	defer func() {
		if fr.block == nil {
			return // normal return
		}
		r := recover()
		gp, ok := r.(goPanic)
		if !ok {
			panic(r) // engine abort or internal error: propagate untouched
		}
		fr.in.cur = fr
		fr.panicking = true
		fr.panicVal = gp
		fr.runDefers()
		// recovered
		fr.block = fr.fn.Recover
		if fr.block == nil {
			// no recover block: function returns zero results
			fr.result = zeroResults(fr.fn)
		}
	}()
	for {
		if fr.block == nil {
			return
		}
		b := fr.block
	instrs:
		for _, ins := range b.Instrs {
			fr.curInstr = ins
			fr.in.Steps++
			if fr.in.Steps > fr.in.Cfg.MaxSteps {
				fr.in.abort(StBudget, "step budget %d exceeded", fr.in.Cfg.MaxSteps)
			}
			if traceFn != "" && strings.Contains(fr.fn.String(), traceFn) {
				fmt.Printf("TRACE %s: %s\n", fr.fn.Name(), ins)
			}
			switch fr.visit(ins) {
			case kReturn:
				fr.block = nil
				return
			case kJump:
				break instrs
			}
		}
	}
}

func zeroResults(fn *ssa.Function) Value {
	r := fn.Signature.Results()
	switch r.Len() {
	case 0:
		return nil
	case 1:
		return zero(r.At(0).Type())
	}
	t := make(Tuple, r.Len())
	for i := range t {
		t[i] = zero(r.At(i).Type())
	}
	return t
}

func (fr *frame) runDefers() {
	for len(fr.defers) > 0 {
		d := fr.defers[len(fr.defers)-1]
		fr.defers = fr.defers[:len(fr.defers)-1]
		fr.runDefer(d)
	}
	if fr.panicking {
		panic(fr.panicVal)
	}
}

func (fr *frame) runDefer(d deferred) {
	ok := false
	defer func() {
		if !ok {
			r := recover()
			if gp, isGo := r.(goPanic); isGo {
				fr.in.cur = fr
				fr.panicking = true
				fr.panicVal = gp
			} else {
				panic(r)
			}
		}
	}()
	fr.in.call(d.fn, d.args)
	ok = true
}

type cont int

const (
	kNext cont = iota
	kReturn
	kJump
)

func (fr *frame) get(v ssa.Value) Value {
	switch v := v.(type) {
	case *ssa.Const:
		return fr.in.constValue(v)
	case *ssa.Global:
		return fr.in.global(v)
	case *ssa.Function:
		return v
	case *ssa.Builtin:
		return v
	case *ssa.FreeVar:
		for i, fv := range fr.fn.FreeVars {
			if fv == v {
				return fr.env[i]
			}
		}
		panic("free var not found")
	}
	if i, ok := fr.info.idx[v]; ok {
		return fr.regs[i]
	}
	panic(fmt.Sprintf("get: no register for %T %s in %s", v, v.Name(), fr.fn))
}

func (fr *frame) set(v ssa.Value, x Value) {
	fr.regs[fr.info.idx[v]] = x
}

func (fr *frame) visit(ins ssa.Instruction) cont {
	in := fr.in
	switch ins := ins.(type) {
	case *ssa.DebugRef:
	case *ssa.UnOp:
		fr.set(ins, in.unop(ins, fr.get(ins.X)))
	case *ssa.BinOp:
		fr.set(ins, in.binop(ins.Op, ins.X.Type(), ins.Y.Type(), fr.get(ins.X), fr.get(ins.Y)))
	case *ssa.Call:
		fn, args := fr.prepareCall(&ins.Call)
		fr.set(ins, in.call(fn, args))
		in.cur = fr
	case *ssa.ChangeInterface:
		fr.set(ins, fr.get(ins.X))
	case *ssa.ChangeType:
		fr.set(ins, fr.get(ins.X))
	case *ssa.Convert:
		fr.set(ins, in.conv(ins.Type(), ins.X.Type(), fr.get(ins.X)))
	case *ssa.MultiConvert:
		fr.set(ins, in.conv(ins.Type(), ins.X.Type(), fr.get(ins.X)))
	case *ssa.SliceToArrayPointer:
		in.unsupported("SliceToArrayPointer")
	case *ssa.MakeInterface:
		fr.set(ins, Iface{T: ins.X.Type(), V: fr.get(ins.X)})
	case *ssa.Extract:
		fr.set(ins, fr.get(ins.Tuple).(Tuple)[ins.Index])
	case *ssa.Slice:
		fr.set(ins, in.slice(ins, fr.get(ins.X), fr.optGet(ins.Low), fr.optGet(ins.High), fr.optGet(ins.Max)))
	case *ssa.Return:
		switch len(ins.Results) {
		case 0:
		case 1:
			fr.result = fr.get(ins.Results[0])
		default:
			t := make(Tuple, len(ins.Results))
			for i, r := range ins.Results {
				t[i] = fr.get(r)
			}
			fr.result = t
		}
		return kReturn
	case *ssa.RunDefers:
		fr.runDefers()
	case *ssa.Panic:
		panic(goPanic{v: fr.get(ins.X), site: in.site(), stack: in.stack()})
	case *ssa.MakeChan:
		n := in.intArg(fr.get(ins.Size), "makechan-size")
		if n < 0 || n > 1<<20 {
			in.rtPanic("makechan: size out of range")
		}
		fr.set(ins, &Chan{cap: n})
	case *ssa.Go:
		// Fork-join model: the goroutine runs to completion right here (its body is atomic);
		// what it sends is queued; the ORDER in which results of different goroutines are
		// received is symbolic (Interp.recv). A goroutine that would block is refused.
		fn, args := fr.prepareCall(&ins.Call)
		in.goSeq++
		saved := in.goCur
		in.goCur = in.goSeq
		in.Notes["goroutine-run-atomically"]++
		in.call(fn, args)
		in.goCur = saved
		in.cur = fr
	case *ssa.Send:
		ch, _ := fr.get(ins.Chan).(*Chan)
		if ch == nil {
			in.unsupported("send on a nil channel (blocks forever)")
		}
		if len(ch.buf) >= ch.cap {
			in.unsupported("channel send that would block (outside the fork-join model)")
		}
		ch.buf = append(ch.buf, copyVal(fr.get(ins.X)))
		ch.senders = append(ch.senders, in.goCur)
	case *ssa.Select:
		in.unsupported("concurrency instruction %T", ins)
	case *ssa.Store:
		p := fr.get(ins.Addr).(*Value)
		if p == nil {
			in.rtPanic("invalid memory address or nil pointer dereference")
		}
		assign(p, fr.get(ins.Val))
	case *ssa.If:
		c := fr.get(ins.Cond).(Sc)
		succ := 1
		if in.branch(c, RecBranch, "") {
			succ = 0
		}
		fr.prev, fr.block = fr.block, fr.block.Succs[succ]
		return kJump
	case *ssa.Jump:
		fr.prev, fr.block = fr.block, fr.block.Succs[0]
		return kJump
	case *ssa.Defer:
		fn, args := fr.prepareCall(&ins.Call)
		fr.defers = append(fr.defers, deferred{fn: fn, args: args, pos: ins.Pos()})
	case *ssa.Alloc:
		p := new(Value)
		*p = zero(ins.Type().(*types.Pointer).Elem())
		fr.set(ins, p)
	case *ssa.MakeSlice:
		n := in.intArg(fr.get(ins.Len), "makeslice-len")
		c := in.intArg(fr.get(ins.Cap), "makeslice-cap")
		if n < 0 || c < n || c > 1<<28 {
			in.rtPanic("makeslice: len out of range")
		}
		et := ins.Type().Underlying().(*types.Slice).Elem()
		s := make([]Value, n, c)
		full := s[:c]
		for i := range full {
			full[i] = zero(et)
		}
		fr.set(ins, s)
	case *ssa.MakeMap:
		fr.set(ins, newMap(ins.Type().Underlying().(*types.Map).Key()))
	case *ssa.Range:
		in.curRange = ins
		fr.set(ins, in.rangeIter(fr.get(ins.X)))
		in.curRange = nil
	case *ssa.Next:
		fr.set(ins, in.next(ins, fr.get(ins.Iter).(*Iter)))
	case *ssa.FieldAddr:
		p := fr.get(ins.X).(*Value)
		if p == nil {
			in.rtPanic("invalid memory address or nil pointer dereference")
		}
		fr.set(ins, &(*p).(Struct)[ins.Field])
	case *ssa.Field:
		fr.set(ins, fr.get(ins.X).(Struct)[ins.Field])
	case *ssa.IndexAddr:
		x := fr.get(ins.X)
		var elems []Value
		switch x := x.(type) {
		case []Value:
			elems = x
		case *Value:
			if x == nil {
				in.rtPanic("invalid memory address or nil pointer dereference")
			}
			elems = []Value((*x).(Array))
		default:
			panic(fmt.Sprintf("IndexAddr on %T", x))
		}
		idxV := fr.get(ins.Index)
		if sc, ok := idxV.(Sc); ok && sc.T != nil && !sc.T.IsConst() && onlyLoads(ins) {
			if v, ok := in.symTableRead(elems, sc, ins.Index.Type(), ins.Type().(*types.Pointer).Elem()); ok {
				cell := new(Value)
				*cell = v
				fr.set(ins, cell)
				break
			}
		}
		i := in.indexArg(idxV, ins.Index.Type(), len(elems))
		fr.set(ins, &elems[i])
	case *ssa.Index:
		x := fr.get(ins.X)
		switch x := x.(type) {
		case Array:
			if sc, ok := fr.get(ins.Index).(Sc); ok && sc.T != nil && !sc.T.IsConst() {
				if v, ok := in.symTableRead([]Value(x), sc, ins.Index.Type(), ins.Type()); ok {
					fr.set(ins, v)
					break
				}
			}
			i := in.indexArg(fr.get(ins.Index), ins.Index.Type(), len(x))
			fr.set(ins, x[i])
		case Str:
			if sc, ok := fr.get(ins.Index).(Sc); ok && sc.T != nil && !sc.T.IsConst() && x.T == nil {
				if v, ok := in.symTableRead(bytesFromStr(x), sc, ins.Index.Type(), ins.Type()); ok {
					fr.set(ins, v)
					break
				}
			}
			i := in.indexArg(fr.get(ins.Index), ins.Index.Type(), x.Len())
			fr.set(ins, x.ByteAt(i))
		default:
			panic(fmt.Sprintf("Index on %T", x))
		}
	case *ssa.Lookup:
		fr.set(ins, in.lookup(ins, fr.get(ins.X), fr.get(ins.Index)))
	case *ssa.MapUpdate:
		m := fr.get(ins.Map).(*Map)
		if m == nil {
			in.rtPanic("assignment to entry in nil map")
		}
		in.mapSet(m, fr.get(ins.Key), copyVal(fr.get(ins.Value)))
	case *ssa.TypeAssert:
		fr.set(ins, in.typeAssert(ins, fr.get(ins.X).(Iface)))
	case *ssa.MakeClosure:
		env := make([]Value, len(ins.Bindings))
		for i, b := range ins.Bindings {
			env[i] = fr.get(b)
		}
		fr.set(ins, &Closure{Fn: ins.Fn.(*ssa.Function), Env: env})
	case *ssa.Phi:
		// all phis of a block are evaluated simultaneously (on entry, at the first phi)
		b := ins.Block()
		if b.Instrs[0] != ssa.Instruction(ins) {
			break // already assigned together with the first phi
		}
		pi := -1
		for i, pred := range b.Preds {
			if pred == fr.prev {
				pi = i
				break
			}
		}
		var vals []Value
		var phis []*ssa.Phi
		for _, x := range b.Instrs {
			p, ok := x.(*ssa.Phi)
			if !ok {
				break
			}
			phis = append(phis, p)
			vals = append(vals, fr.get(p.Edges[pi]))
		}
		for i, p := range phis {
			fr.set(p, vals[i])
		}
	default:
		in.unsupported("instruction %T", ins)
	}
	return kNext
}

func (fr *frame) optGet(v ssa.Value) Value {
	if v == nil {
		return nil
	}
	return fr.get(v)
}

func (fr *frame) prepareCall(c *ssa.CallCommon) (Value, []Value) {
	in := fr.in
	var args []Value
	var fn Value
	if c.IsInvoke() {
		recv := fr.get(c.Value).(Iface)
		if recv.T == nil {
			in.rtPanic("invalid memory address or nil pointer dereference")
		}
		m := in.W.lookupMethod(recv.T, c.Method.Name(), c.Method.Pkg())
		if m == nil {
			panic(fmt.Sprintf("method %s not found on %s", c.Method.Name(), recv.T))
		}
		fn = m
		args = append(args, recv.V)
	} else {
		fn = fr.get(c.Value)
	}
	for _, a := range c.Args {
		args = append(args, fr.get(a))
	}
	return fn, args
}

// intArg: a (possibly symbolic) integer used where the engine needs a concrete number.
func (in *Interp) intArg(v Value, tag string) int {
	sc := v.(Sc)
	return int(int64(in.concretize(sc, 64, tag)))
}

// indexArg checks 0 <= i < n (recording the check when symbolic) and returns the concrete index.
func (in *Interp) indexArg(v Value, t types.Type, n int) int {
	sc := v.(Sc)
	k, _ := basicKind(t)
	if sc.T != nil && !sc.T.IsConst() {
		w := k.bits
		var ok *sym.Term
		x64 := in.St.Resize(sc.T, 64, k.signed)
		nT := in.St.Const(64, uint64(n))
		if k.signed {
			ok = in.St.And(in.St.Cmp(sym.OpSle, in.St.Const(64, 0), x64), in.St.Cmp(sym.OpSlt, x64, nT))
		} else {
			ok = in.St.Cmp(sym.OpUlt, x64, nT)
		}
		var cok bool
		if k.signed {
			cok = int64(sc.C) >= 0 && int64(sc.C) < int64(n)
		} else {
			cok = sc.C < uint64(n)
		}
		if !in.branch(Sc{C: b2u(cok), T: ok}, RecCheck, "index") {
			in.rtPanic(fmt.Sprintf("index out of range [%d] with length %d", int64(sc.C), n))
		}
		return int(in.concretize(sc, w, "index"))
	}
	var i int64
	if k.signed {
		i = int64(sc.C)
		if i < 0 || i >= int64(n) {
			in.rtPanic(fmt.Sprintf("index out of range [%d] with length %d", i, n))
		}
	} else {
		if sc.C >= uint64(n) {
			in.rtPanic(fmt.Sprintf("index out of range [%d] with length %d", sc.C, n))
		}
		i = int64(sc.C)
	}
	return int(i)
}

func b2u(b bool) uint64 {
	if b {
		return 1
	}
	return 0
}

func (in *Interp) constValue(c *ssa.Const) Value {
	t := c.Type()
	if c.Value == nil {
		return zero(t)
	}
	if k, ok := basicKind(t); ok {
		if k.isBool {
			return mkBool(constantBool(c))
		}
		if k.signed {
			return Sc{C: canon(k, uint64(c.Int64()))}
		}
		return Sc{C: canon(k, c.Uint64())}
	}
	if isString(t) {
		return Str{S: constantString(c)}
	}
	if isFloat(t) {
		return c.Float64()
	}
	if b, ok := t.Underlying().(*types.Basic); ok && b.Info()&types.IsComplex != 0 {
		return c.Complex128()
	}
	panic(fmt.Sprintf("constValue: unsupported constant %s of type %s", c, t))
}

// SortedFnNames helper for evidence.
func SortedFnNames(m map[*ssa.Function]int) []string {
	var out []string
	for f := range m {
		out = append(out, f.String())
	}
	sort.Strings(out)
	return out
}

func onlyLoads(ins *ssa.IndexAddr) bool {
	refs := ins.Referrers()
	if refs == nil || len(*refs) == 0 {
		return false
	}
	for _, r := range *refs {
		u, ok := r.(*ssa.UnOp)
		if !ok || u.Op != token.MUL || u.Block() != ins.Block() {
			if _, isDbg := r.(*ssa.DebugRef); isDbg {
				continue
			}
			return false
		}
	}
	return true
}

// symTableRead reads elems[idx] for a symbolic idx when all elements are
// concrete scalars with few distinct values: the result is one ite term
// (grouped by value) instead of an enumeration of idx. The bounds check is
// recorded as usual.
func (in *Interp) symTableRead(elems []Value, idx Sc, it types.Type, et types.Type) (Value, bool) {
	n := len(elems)
	if n == 0 || n > 512 {
		return nil, false
	}
	ek, isSc := basicKind(et)
	if !isSc || ek.isBool {
		return nil, false
	}
	groups := map[uint64][]int{}
	var order []uint64
	for i, e := range elems {
		sc, ok := e.(Sc)
		if !ok || sc.T != nil {
			return nil, false
		}
		if _, seen := groups[sc.C]; !seen {
			order = append(order, sc.C)
			if len(order) > 24 {
				return nil, false
			}
		}
		groups[sc.C] = append(groups[sc.C], i)
	}
	k, _ := basicKind(it)
	x64 := in.St.Resize(idx.T, 64, k.signed)
	// bounds check
	var okT *sym.Term
	if k.signed {
		okT = in.St.And(in.St.Cmp(sym.OpSle, in.St.Const(64, 0), x64), in.St.Cmp(sym.OpSlt, x64, in.St.Const(64, uint64(n))))
	} else {
		okT = in.St.Cmp(sym.OpUlt, x64, in.St.Const(64, uint64(n)))
	}
	var cok bool
	if k.signed {
		cok = int64(idx.C) >= 0 && int64(idx.C) < int64(n)
	} else {
		cok = idx.C < uint64(n)
	}
	if !in.branch(Sc{C: b2u(cok), T: okT}, RecCheck, "index") {
		in.rtPanic(fmt.Sprintf("index out of range [%d] with length %d", int64(idx.C), n))
	}
	w := ek.bits
	// sort groups by size ascending, the largest group becomes the default
	sort.Slice(order, func(a, b int) bool { return len(groups[order[a]]) < len(groups[order[b]]) })
	def := order[len(order)-1]
	t := in.St.Const(w, def)
	for gi := len(order) - 2; gi >= 0; gi-- {
		v := order[gi]
		var alts []*sym.Term
		// compress consecutive indices into ranges
		idxs := groups[v]
		for a := 0; a < len(idxs); {
			b := a
			for b+1 < len(idxs) && idxs[b+1] == idxs[b]+1 {
				b++
			}
			if a == b {
				alts = append(alts, in.St.Eq(x64, in.St.Const(64, uint64(idxs[a]))))
			} else {
				alts = append(alts, in.St.And(in.St.Cmp(sym.OpUle, in.St.Const(64, uint64(idxs[a])), x64), in.St.Cmp(sym.OpUle, x64, in.St.Const(64, uint64(idxs[b])))))
			}
			a = b + 1
		}
		t = in.St.Ite(in.St.Or(alts...), in.St.Const(w, v), t)
	}
	return Sc{C: elems[idx.C].(Sc).C, T: t}, true
}
