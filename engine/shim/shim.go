// Package verifshim exists only so that go/packages can load /repo through a replace directive.
package verifshim
