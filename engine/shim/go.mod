module verifshim

go 1.23

require github.com/jsightapi/jsight-api-core v0.0.0

replace github.com/jsightapi/jsight-api-core => /repo
