package sym

import (
	"bufio"
	"fmt"
	"io"
	"os/exec"
	"strconv"
	"strings"
	"time"
)

// Solver is a long-lived SMT solver process spoken to over stdin/stdout.
type Solver struct {
	Name    string
	cmd     *exec.Cmd
	in      io.WriteCloser
	out     *bufio.Reader
	Queries int
	Sat     int
	Unsat   int
	Unknown int
	Errors  int
	Time    time.Duration
	Log     io.Writer // optional transcript
	Declared map[string]bool
}

// SolverSpec names a back end.
type SolverSpec struct {
	Name string
	Argv []string
}

var (
	Z3Old = SolverSpec{"z3-4.8.12", []string{"/usr/bin/z3", "-in", "-smt2"}}
	Z3New = SolverSpec{"z3-5.1.0", []string{"z3-new", "-in", "-smt2"}}
	CVC5  = SolverSpec{"cvc5-1.0", []string{"cvc5", "--incremental", "--lang=smt2", "--produce-models", "--tlimit-per=20000"}}
)

func StartSolver(spec SolverSpec) (*Solver, error) {
	cmd := exec.Command(spec.Argv[0], spec.Argv[1:]...)
	in, err := cmd.StdinPipe()
	if err != nil {
		return nil, err
	}
	out, err := cmd.StdoutPipe()
	if err != nil {
		return nil, err
	}
	cmd.Stderr = cmd.Stdout
	if err := cmd.Start(); err != nil {
		return nil, err
	}
	s := &Solver{Name: spec.Name, cmd: cmd, in: in, out: bufio.NewReaderSize(out, 1<<16), Declared: map[string]bool{}}
	s.Send("(set-option :print-success false)\n")
	if strings.HasPrefix(spec.Name, "z3") {
		s.Send("(set-option :timeout 20000)\n")
	} else {
		s.Send("(set-logic QF_BV)\n")
	}
	return s, nil
}

func (s *Solver) Close() {
	if s == nil || s.cmd == nil {
		return
	}
	io.WriteString(s.in, "(exit)\n")
	s.in.Close()
	done := make(chan struct{})
	go func() { s.cmd.Wait(); close(done) }()
	select {
	case <-done:
	case <-time.After(2 * time.Second):
		s.cmd.Process.Kill()
	}
	s.cmd = nil
}

func (s *Solver) Send(text string) {
	if s.Log != nil {
		io.WriteString(s.Log, text)
	}
	if _, err := io.WriteString(s.in, text); err != nil {
		panic(fmt.Sprintf("solver %s: write failed: %v", s.Name, err))
	}
}

func (s *Solver) readLine() string {
	line, err := s.out.ReadString('\n')
	if err != nil && line == "" {
		panic(fmt.Sprintf("solver %s: read failed: %v", s.Name, err))
	}
	return strings.TrimSpace(line)
}

// Reset clears all assertions and declarations.
func (s *Solver) Reset() {
	s.Declared = map[string]bool{}
	s.Send("(reset)\n(set-option :print-success false)\n")
	if strings.HasPrefix(s.Name, "z3") {
		s.Send("(set-option :timeout 20000)\n")
	} else {
		s.Send("(set-logic QF_BV)\n")
	}
}

// CheckSat issues (check-sat) and returns "sat", "unsat", "unknown" or "error: ...".
func (s *Solver) CheckSat() string {
	t0 := time.Now()
	s.Send("(check-sat)\n")
	var line string
	for {
		line = s.readLine()
		if line != "" {
			break
		}
	}
	s.Time += time.Since(t0)
	s.Queries++
	switch line {
	case "sat":
		s.Sat++
	case "unsat":
		s.Unsat++
	case "unknown", "timeout":
		s.Unknown++
		line = "unknown"
	default:
		s.Errors++
		line = "error: " + line
	}
	return line
}

// GetValues returns the model values of the given variables (after a sat answer).
func (s *Solver) GetValues(vars []*Term) (map[string]uint64, error) {
	res := map[string]uint64{}
	if len(vars) == 0 {
		return res, nil
	}
	var sb strings.Builder
	sb.WriteString("(get-value (")
	for _, v := range vars {
		sb.WriteString(v.Name)
		sb.WriteByte(' ')
	}
	sb.WriteString("))\n(echo \"@@\")\n")
	s.Send(sb.String())
	// read until parentheses balance
	var text strings.Builder
	depth := 0
	started := false
	for {
		line := s.readLine()
		if strings.HasPrefix(line, "(error") {
			s.Errors++
			return nil, fmt.Errorf("solver %s: %s", s.Name, line)
		}
		text.WriteString(line)
		text.WriteByte(' ')
		for _, c := range line {
			if c == '(' {
				depth++
				started = true
			} else if c == ')' {
				depth--
			}
		}
		if started && depth <= 0 {
			break
		}
	}
	// consume the echo marker (forces the solver to flush its output)
	for {
		line := s.readLine()
		if strings.Contains(line, "@@") {
			break
		}
	}
	toks := tokenize(text.String())
	// pattern: ( ( name value ) ( name value ) ... ) where value may be (_ bvN w)
	i := 0
	if i < len(toks) && toks[i] == "(" {
		i++
	}
	for i < len(toks) && toks[i] == "(" {
		i++
		if i >= len(toks) {
			break
		}
		name := toks[i]
		i++
		var val uint64
		if i < len(toks) && toks[i] == "(" {
			// (_ bvN w)
			if i+3 < len(toks) && toks[i+1] == "_" && strings.HasPrefix(toks[i+2], "bv") {
				v, _ := strconv.ParseUint(toks[i+2][2:], 10, 64)
				val = v
			}
			for i < len(toks) && toks[i] != ")" {
				i++
			}
			i++
		} else {
			tv := toks[i]
			i++
			switch {
			case tv == "true":
				val = 1
			case tv == "false":
				val = 0
			case strings.HasPrefix(tv, "#x"):
				val, _ = strconv.ParseUint(tv[2:], 16, 64)
			case strings.HasPrefix(tv, "#b"):
				val, _ = strconv.ParseUint(tv[2:], 2, 64)
			default:
				return nil, fmt.Errorf("solver %s: cannot parse value %q", s.Name, tv)
			}
		}
		if i < len(toks) && toks[i] == ")" {
			i++
		}
		res[name] = val
	}
	if len(res) != len(vars) {
		return nil, fmt.Errorf("solver %s: get-value returned %d of %d values: %s", s.Name, len(res), len(vars), text.String())
	}
	return res, nil
}

func tokenize(s string) []string {
	var toks []string
	cur := strings.Builder{}
	flush := func() {
		if cur.Len() > 0 {
			toks = append(toks, cur.String())
			cur.Reset()
		}
	}
	for _, c := range s {
		switch c {
		case '(', ')':
			flush()
			toks = append(toks, string(c))
		case ' ', '\t', '\n', '\r':
			flush()
		default:
			cur.WriteRune(c)
		}
	}
	flush()
	return toks
}

// Declare emits declarations of variables.
func (s *Solver) Declare(vars []*Term) {
	var sb strings.Builder
	for _, v := range vars {
		fmt.Fprintf(&sb, "(declare-const %s %s)\n", v.Name, sortStr(v.W))
	}
	s.Send(sb.String())
}
