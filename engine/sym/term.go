// Package sym: SMT term AST (hash-consed per store), simplifier, SMT-LIB2 printer
// and concrete evaluator.
package sym

import (
	"fmt"
	"sort"
	"strings"
)

type Op uint8

const (
	OpConst Op = iota
	OpVar
	OpNot   // bool
	OpAnd   // bool n-ary
	OpOr    // bool n-ary
	OpEq    // any sort -> bool
	OpIte   // cond,a,b
	OpAdd   // bv
	OpSub
	OpMul
	OpUDiv
	OpURem
	OpSDiv
	OpSRem
	OpBAnd
	OpBOr
	OpBXor
	OpBNot
	OpNeg
	OpShl
	OpLShr
	OpAShr
	OpUlt // -> bool
	OpUle
	OpSlt
	OpSle
	OpZExt    // arg, to width W
	OpSExt    // arg, to width W
	OpExtract // arg, low bits W (always from bit 0)
)

var opNames = map[Op]string{
	OpNot: "not", OpAnd: "and", OpOr: "or", OpEq: "=", OpIte: "ite",
	OpAdd: "bvadd", OpSub: "bvsub", OpMul: "bvmul", OpUDiv: "bvudiv", OpURem: "bvurem",
	OpSDiv: "bvsdiv", OpSRem: "bvsrem", OpBAnd: "bvand", OpBOr: "bvor", OpBXor: "bvxor",
	OpBNot: "bvnot", OpNeg: "bvneg", OpShl: "bvshl", OpLShr: "bvlshr", OpAShr: "bvashr",
	OpUlt: "bvult", OpUle: "bvule", OpSlt: "bvslt", OpSle: "bvsle",
}

// Term is an immutable, hash-consed SMT term. W==0 means sort Bool, otherwise (_ BitVec W).
type Term struct {
	Op   Op
	W    uint8
	Args []*Term
	Val  uint64 // OpConst: value (masked to W; bool: 0/1)
	Name string // OpVar
	ID   int
	H    uint64 // structural hash (stable across stores)
}

// Store hash-conses terms. Not safe for concurrent use; one per worker/run.
type tkey struct {
	op         Op
	w          uint8
	n          uint8
	val        uint64
	a0, a1, a2 int32
}

type Store struct {
	tab  map[string]*Term
	tab3 map[tkey]*Term
	next int
	Vars map[string]*Term
}

func NewStore() *Store {
	return &Store{tab: map[string]*Term{}, tab3: make(map[tkey]*Term, 64), Vars: map[string]*Term{}}
}

func mask(w uint8) uint64 {
	if w >= 64 {
		return ^uint64(0)
	}
	return (uint64(1) << w) - 1
}

func (s *Store) intern(t *Term) *Term {
	var k string
	var k3 tkey
	small := len(t.Args) <= 3 && t.Op != OpVar
	if small {
		k3 = tkey{op: t.Op, w: t.W, val: t.Val, n: uint8(len(t.Args))}
		if len(t.Args) > 0 {
			k3.a0 = int32(t.Args[0].ID)
		}
		if len(t.Args) > 1 {
			k3.a1 = int32(t.Args[1].ID)
		}
		if len(t.Args) > 2 {
			k3.a2 = int32(t.Args[2].ID)
		}
		if e, ok := s.tab3[k3]; ok {
			return e
		}
	} else {
		var sb strings.Builder
		fmt.Fprintf(&sb, "%d|%d|%d|%s", t.Op, t.W, t.Val, t.Name)
		for _, a := range t.Args {
			fmt.Fprintf(&sb, "|%d", a.ID)
		}
		k = sb.String()
		if e, ok := s.tab[k]; ok {
			return e
		}
	}
	s.next++
	t.ID = s.next
	h := uint64(14695981039346656037)
	mix := func(v uint64) {
		for i := 0; i < 8; i++ {
			h ^= v & 0xff
			h *= 1099511628211
			v >>= 8
		}
	}
	mix(uint64(t.Op))
	mix(uint64(t.W))
	mix(t.Val)
	for i := 0; i < len(t.Name); i++ {
		mix(uint64(t.Name[i]))
	}
	for _, a := range t.Args {
		mix(a.H)
	}
	t.H = h
	if small {
		s.tab3[k3] = t
	} else {
		s.tab[k] = t
	}
	return t
}

func (s *Store) Const(w uint8, v uint64) *Term {
	if w == 0 {
		if v != 0 {
			v = 1
		}
	} else {
		v &= mask(w)
	}
	return s.intern(&Term{Op: OpConst, W: w, Val: v})
}

func (s *Store) Bool(b bool) *Term {
	if b {
		return s.Const(0, 1)
	}
	return s.Const(0, 0)
}

func (s *Store) Var(name string, w uint8) *Term {
	if t, ok := s.Vars[name]; ok {
		if t.W != w {
			panic("sym: variable " + name + " redeclared with different width")
		}
		return t
	}
	t := s.intern(&Term{Op: OpVar, W: w, Name: name})
	s.Vars[name] = t
	return t
}

func (t *Term) IsConst() bool { return t.Op == OpConst }
func (t *Term) IsTrue() bool  { return t.Op == OpConst && t.W == 0 && t.Val == 1 }
func (t *Term) IsFalse() bool { return t.Op == OpConst && t.W == 0 && t.Val == 0 }

func (s *Store) Not(a *Term) *Term {
	if a.W != 0 {
		panic("sym: Not on non-bool")
	}
	if a.IsConst() {
		return s.Bool(a.Val == 0)
	}
	if a.Op == OpNot {
		return a.Args[0]
	}
	return s.intern(&Term{Op: OpNot, W: 0, Args: []*Term{a}})
}

func (s *Store) And(as ...*Term) *Term {
	var out []*Term
	for _, a := range as {
		if a.W != 0 {
			panic("sym: And on non-bool")
		}
		if a.IsFalse() {
			return a
		}
		if a.IsTrue() {
			continue
		}
		if a.Op == OpAnd {
			out = append(out, a.Args...)
		} else {
			out = append(out, a)
		}
	}
	if len(out) == 0 {
		return s.Bool(true)
	}
	if len(out) == 1 {
		return out[0]
	}
	return s.intern(&Term{Op: OpAnd, W: 0, Args: out})
}

func (s *Store) Or(as ...*Term) *Term {
	var out []*Term
	for _, a := range as {
		if a.W != 0 {
			panic("sym: Or on non-bool")
		}
		if a.IsTrue() {
			return a
		}
		if a.IsFalse() {
			continue
		}
		if a.Op == OpOr {
			out = append(out, a.Args...)
		} else {
			out = append(out, a)
		}
	}
	if len(out) == 0 {
		return s.Bool(false)
	}
	if len(out) == 1 {
		return out[0]
	}
	return s.intern(&Term{Op: OpOr, W: 0, Args: out})
}

func (s *Store) Eq(a, b *Term) *Term {
	if a.W != b.W {
		panic(fmt.Sprintf("sym: Eq width mismatch %d vs %d", a.W, b.W))
	}
	if a == b {
		return s.Bool(true)
	}
	if a.IsConst() && b.IsConst() {
		return s.Bool(a.Val == b.Val)
	}
	if a.W == 0 {
		// bool equality
		if a.IsConst() {
			if a.Val == 1 {
				return b
			}
			return s.Not(b)
		}
		if b.IsConst() {
			if b.Val == 1 {
				return a
			}
			return s.Not(a)
		}
	}
	if a.H > b.H {
		a, b = b, a
	}
	return s.intern(&Term{Op: OpEq, W: 0, Args: []*Term{a, b}})
}

func (s *Store) Ite(c, a, b *Term) *Term {
	if c.W != 0 || a.W != b.W {
		panic("sym: Ite sort mismatch")
	}
	if c.IsConst() {
		if c.Val == 1 {
			return a
		}
		return b
	}
	if a == b {
		return a
	}
	if a.W == 0 && a.IsConst() && b.IsConst() {
		if a.Val == 1 && b.Val == 0 {
			return c
		}
		if a.Val == 0 && b.Val == 1 {
			return s.Not(c)
		}
	}
	return s.intern(&Term{Op: OpIte, W: a.W, Args: []*Term{c, a, b}})
}

func sext(v uint64, w uint8) int64 {
	if w >= 64 {
		return int64(v)
	}
	sh := 64 - uint(w)
	return int64(v<<sh) >> sh
}

// EvalBin evaluates a binary bit-vector op concretely on W-bit values.
func EvalBin(op Op, w uint8, a, b uint64) uint64 {
	m := mask(w)
	a &= m
	b &= m
	var r uint64
	switch op {
	case OpAdd:
		r = a + b
	case OpSub:
		r = a - b
	case OpMul:
		r = a * b
	case OpUDiv:
		if b == 0 {
			r = m
		} else {
			r = a / b
		}
	case OpURem:
		if b == 0 {
			r = a
		} else {
			r = a % b
		}
	case OpSDiv:
		sa, sb := sext(a, w), sext(b, w)
		if sb == 0 {
			if sa < 0 {
				r = 1
			} else {
				r = m
			}
		} else if sb == -1 {
			r = uint64(-sa)
		} else {
			r = uint64(sa / sb)
		}
	case OpSRem:
		sa, sb := sext(a, w), sext(b, w)
		if sb == 0 {
			r = a
		} else if sb == -1 {
			r = 0
		} else {
			r = uint64(sa % sb)
		}
	case OpBAnd:
		r = a & b
	case OpBOr:
		r = a | b
	case OpBXor:
		r = a ^ b
	case OpShl:
		if b >= uint64(w) {
			r = 0
		} else {
			r = a << b
		}
	case OpLShr:
		if b >= uint64(w) {
			r = 0
		} else {
			r = a >> b
		}
	case OpAShr:
		sa := sext(a, w)
		if b >= uint64(w) {
			if sa < 0 {
				r = m
			} else {
				r = 0
			}
		} else {
			r = uint64(sa >> b)
		}
	default:
		panic("sym: EvalBin bad op")
	}
	return r & m
}

func EvalCmp(op Op, w uint8, a, b uint64) bool {
	m := mask(w)
	a &= m
	b &= m
	switch op {
	case OpUlt:
		return a < b
	case OpUle:
		return a <= b
	case OpSlt:
		return sext(a, w) < sext(b, w)
	case OpSle:
		return sext(a, w) <= sext(b, w)
	}
	panic("sym: EvalCmp bad op")
}

func (s *Store) Bin(op Op, a, b *Term) *Term {
	if a.W != b.W || a.W == 0 {
		panic(fmt.Sprintf("sym: Bin %v width mismatch %d %d", op, a.W, b.W))
	}
	if a.IsConst() && b.IsConst() {
		return s.Const(a.W, EvalBin(op, a.W, a.Val, b.Val))
	}
	// light identities
	switch op {
	case OpAdd, OpBOr, OpBXor:
		if a.IsConst() && a.Val == 0 {
			return b
		}
		if b.IsConst() && b.Val == 0 {
			return a
		}
	case OpSub, OpShl, OpLShr, OpAShr:
		if b.IsConst() && b.Val == 0 {
			return a
		}
	}
	return s.intern(&Term{Op: op, W: a.W, Args: []*Term{a, b}})
}

func (s *Store) Cmp(op Op, a, b *Term) *Term {
	if a.W != b.W || a.W == 0 {
		panic("sym: Cmp width mismatch")
	}
	if a.IsConst() && b.IsConst() {
		return s.Bool(EvalCmp(op, a.W, a.Val, b.Val))
	}
	return s.intern(&Term{Op: op, W: 0, Args: []*Term{a, b}})
}

func (s *Store) Un(op Op, a *Term) *Term {
	if a.W == 0 {
		panic("sym: Un on bool")
	}
	if a.IsConst() {
		switch op {
		case OpBNot:
			return s.Const(a.W, ^a.Val)
		case OpNeg:
			return s.Const(a.W, -a.Val)
		}
	}
	return s.intern(&Term{Op: op, W: a.W, Args: []*Term{a}})
}

// Resize converts a bit-vector to width w (zero/sign extension or truncation).
func (s *Store) Resize(a *Term, w uint8, signed bool) *Term {
	if a.W == 0 {
		panic("sym: Resize on bool")
	}
	if a.W == w {
		return a
	}
	if a.IsConst() {
		if w < a.W {
			return s.Const(w, a.Val)
		}
		if signed {
			return s.Const(w, uint64(sext(a.Val, a.W)))
		}
		return s.Const(w, a.Val)
	}
	if w < a.W {
		return s.intern(&Term{Op: OpExtract, W: w, Args: []*Term{a}})
	}
	if signed {
		return s.intern(&Term{Op: OpSExt, W: w, Args: []*Term{a}})
	}
	return s.intern(&Term{Op: OpZExt, W: w, Args: []*Term{a}})
}

// BoolToBV converts a Bool term to a 1/0 bit-vector of width w.
func (s *Store) BoolToBV(b *Term, w uint8) *Term {
	return s.Ite(b, s.Const(w, 1), s.Const(w, 0))
}

// Eval evaluates t under the assignment (missing variables = 0).
func Eval(t *Term, env map[string]uint64) uint64 {
	memo := map[*Term]uint64{}
	var ev func(t *Term) uint64
	ev = func(t *Term) uint64 {
		if v, ok := memo[t]; ok {
			return v
		}
		var r uint64
		switch t.Op {
		case OpConst:
			r = t.Val
		case OpVar:
			r = env[t.Name] & mask(t.W)
			if t.W == 0 {
				r = env[t.Name] & 1
			}
		case OpNot:
			r = 1 - ev(t.Args[0])
		case OpAnd:
			r = 1
			for _, a := range t.Args {
				if ev(a) == 0 {
					r = 0
					break
				}
			}
		case OpOr:
			r = 0
			for _, a := range t.Args {
				if ev(a) == 1 {
					r = 1
					break
				}
			}
		case OpEq:
			if ev(t.Args[0]) == ev(t.Args[1]) {
				r = 1
			}
		case OpIte:
			if ev(t.Args[0]) == 1 {
				r = ev(t.Args[1])
			} else {
				r = ev(t.Args[2])
			}
		case OpUlt, OpUle, OpSlt, OpSle:
			if EvalCmp(t.Op, t.Args[0].W, ev(t.Args[0]), ev(t.Args[1])) {
				r = 1
			}
		case OpBNot:
			r = ^ev(t.Args[0]) & mask(t.W)
		case OpNeg:
			r = (-ev(t.Args[0])) & mask(t.W)
		case OpZExt:
			r = ev(t.Args[0])
		case OpSExt:
			r = uint64(sext(ev(t.Args[0]), t.Args[0].W)) & mask(t.W)
		case OpExtract:
			r = ev(t.Args[0]) & mask(t.W)
		default:
			r = EvalBin(t.Op, t.W, ev(t.Args[0]), ev(t.Args[1]))
		}
		memo[t] = r
		return r
	}
	return ev(t)
}

func SortStr(w uint8) string { return sortStr(w) }

func sortStr(w uint8) string {
	if w == 0 {
		return "Bool"
	}
	return fmt.Sprintf("(_ BitVec %d)", w)
}

func constStr(t *Term) string {
	if t.W == 0 {
		if t.Val == 1 {
			return "true"
		}
		return "false"
	}
	if t.W%4 == 0 {
		return fmt.Sprintf("#x%0*x", int(t.W/4), t.Val)
	}
	return fmt.Sprintf("#b%0*b", int(t.W), t.Val)
}

// Printer prints terms with sharing: every non-leaf node printed once as a
// define-fun; used inside one solver scope.
type Printer struct {
	defined map[*Term]string
	Out     strings.Builder
	prefix  string
	n       int
}

func NewPrinter(prefix string) *Printer {
	return &Printer{defined: map[*Term]string{}, prefix: prefix}
}

// Ref returns an SMT expression (a name or literal) for t, emitting define-funs
// for all not yet defined sub-terms into p.Out.
func (p *Printer) Ref(t *Term) string {
	if t.Op == OpConst {
		return constStr(t)
	}
	if t.Op == OpVar {
		return t.Name
	}
	if n, ok := p.defined[t]; ok {
		return n
	}
	args := make([]string, len(t.Args))
	for i, a := range t.Args {
		args[i] = p.Ref(a)
	}
	var body string
	switch t.Op {
	case OpZExt:
		body = fmt.Sprintf("((_ zero_extend %d) %s)", t.W-t.Args[0].W, args[0])
	case OpSExt:
		body = fmt.Sprintf("((_ sign_extend %d) %s)", t.W-t.Args[0].W, args[0])
	case OpExtract:
		body = fmt.Sprintf("((_ extract %d 0) %s)", t.W-1, args[0])
	default:
		body = "(" + opNames[t.Op] + " " + strings.Join(args, " ") + ")"
	}
	p.n++
	name := fmt.Sprintf("%s%d", p.prefix, p.n)
	fmt.Fprintf(&p.Out, "(define-fun %s () %s %s)\n", name, sortStr(t.W), body)
	p.defined[t] = name
	return name
}

// Take returns and clears pending definitions.
func (p *Printer) Take() string {
	s := p.Out.String()
	p.Out.Reset()
	return s
}

// Standalone renders a self-contained SMT-LIB2 script asserting all given terms.
func Standalone(vars map[string]*Term, asserts []*Term) string {
	var sb strings.Builder
	names := make([]string, 0, len(vars))
	for n := range vars {
		names = append(names, n)
	}
	sort.Strings(names)
	for _, n := range names {
		fmt.Fprintf(&sb, "(declare-const %s %s)\n", n, sortStr(vars[n].W))
	}
	p := NewPrinter("t!")
	for _, a := range asserts {
		r := p.Ref(a)
		sb.WriteString(p.Take())
		fmt.Fprintf(&sb, "(assert %s)\n", r)
	}
	sb.WriteString("(check-sat)\n")
	return sb.String()
}

// String is a debugging rendering (no sharing).
func (t *Term) String() string {
	switch t.Op {
	case OpConst:
		return constStr(t)
	case OpVar:
		return t.Name
	}
	parts := []string{}
	for _, a := range t.Args {
		parts = append(parts, a.String())
	}
	n := opNames[t.Op]
	switch t.Op {
	case OpZExt:
		n = fmt.Sprintf("zext%d", t.W)
	case OpSExt:
		n = fmt.Sprintf("sext%d", t.W)
	case OpExtract:
		n = fmt.Sprintf("extract%d", t.W)
	}
	return "(" + n + " " + strings.Join(parts, " ") + ")"
}
