// symrun: developer tool — explore one harness function and print the paths.
package main

import (
	"flag"
	"fmt"
	"os"
	"runtime/debug"
	"runtime/pprof"
	"sort"
	"strconv"
	"strings"
	"time"

	"verif/sym"
	"verif/symgo"
)

func main() {
	pkg := flag.String("pkg", "scanner", "package (relative to repo module)")
	fn := flag.String("fn", "HScanAll", "harness function")
	params := flag.String("p", "", "params k=v,k=v")
	workers := flag.Int("w", 16, "workers")
	verbose := flag.Bool("v", false, "print every path")
	maxPaths := flag.Int("max", 0, "max paths")
	stubs := flag.String("stub", "", "stubs: loc,rune")
	prof := flag.String("cpuprofile", "", "write cpu profile")
	flag.Parse()
	if *prof != "" {
		pf, _ := os.Create(*prof)
		pprof.StartCPUProfile(pf)
		defer pprof.StopCPUProfile()
	}
	debug.SetGCPercent(400)
	t0 := time.Now()
	l, err := symgo.Load(symgo.LoadOpts{RepoDir: "/repo", ShimDir: "/verif/engine/shim", HarnessDir: "/verif/harness"})
	if err != nil {
		fmt.Println(err)
		os.Exit(2)
	}
	fmt.Printf("loaded in %.1fs\n", time.Since(t0).Seconds())
	if *fn == "MAPRANGES" {
		listMapRanges(l)
		return
	}
	f := l.Func(symgo.RepoModule+"/"+*pkg, *fn)
	if f == nil {
		fmt.Println("no such function")
		os.Exit(2)
	}
	cfg := &symgo.Config{MaxSteps: 2000000, MaxDepth: 300, Params: map[string]int64{}}
	for _, kv := range strings.Split(*params, ",") {
		if kv == "" {
			continue
		}
		p := strings.SplitN(kv, "=", 2)
		v, _ := strconv.ParseInt(p[1], 10, 64)
		cfg.Params[p[0]] = v
	}
	if os.Getenv("NOSUM") == "" {
		cfg.Summaries = symgo.DefaultSummaries
	}
	cfg.Stubs = map[string]symgo.ExtFn{}
	for _, st := range strings.Split(*stubs, ",") {
		switch st {
		case "loc":
			cfg.Stubs[symgo.FnNewLocation] = symgo.StubNewLocation
		case "rune":
			cfg.Stubs[symgo.FnDecodeRune] = symgo.StubDecodeRune
		}
	}
	outcomes := map[string]int{}
	tags := map[string]int{}
	ex := &symgo.Explorer{W: l.World, Fn: f, Cfg: cfg, Workers: *workers, Solver: sym.Z3New, MaxPaths: *maxPaths}
	ex.OnPath = func(r *symgo.RunResult) {
		key := r.Status.String()
		if r.Status != symgo.StOK {
			key += ": " + r.Msg + " @ " + r.Site
		}
		outcomes[key]++
		for _, rec := range r.Trace {
			if rec.Kind == symgo.RecConcretize {
				tags["concretize:"+rec.Tag]++
			}
		}
		if *verbose || (r.Status != symgo.StOK && outcomes[key] <= 2) {
			var in []string
			for _, n := range r.VarOrder {
				in = append(in, fmt.Sprintf("%s=%d", n, r.Inputs[n]))
			}
			fmt.Printf("PATH %s | %s | %s | obs=%v\n", r.Status, r.Msg, strings.Join(in, " "), r.Obs)
			if r.Status == symgo.StEngineError {
				fmt.Println(r.GoStack)
			}
			if r.Status == symgo.StPanic {
				fmt.Println("   stack:", r.Stack)
			}
			if r.Status == symgo.StUnsupported {
				fmt.Println("   site:", r.Site)
			}
		}
	}
	if err := ex.Explore(nil); err != nil {
		fmt.Println("explore:", err)
		os.Exit(2)
	}
	fmt.Println(ex.Stats.Summary())
	fmt.Println("tags:", tags)
	keys := []string{}
	for k := range outcomes {
		keys = append(keys, k)
	}
	sort.Strings(keys)
	for _, k := range keys {
		fmt.Printf("%7d  %s\n", outcomes[k], k)
	}
}
