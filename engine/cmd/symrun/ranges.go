package main

import (
	"fmt"
	"go/types"
	"sort"
	"strings"

	"golang.org/x/tools/go/ssa"

	"verif/symgo"
)

// listMapRanges prints every range-over-map in the repository's packages (static part of C06).
func listMapRanges(l *symgo.Loaded) {
	var out []string
	for path, p := range l.Pkgs {
		if !strings.HasPrefix(path, symgo.RepoModule) {
			continue
		}
		var fns []*ssa.Function
		for _, m := range p.Members {
			switch m := m.(type) {
			case *ssa.Function:
				fns = append(fns, m)
			case *ssa.Type:
				for _, t := range []types.Type{m.Type(), types.NewPointer(m.Type())} {
					ms := l.World.Prog.MethodSets.MethodSet(t)
					for i := 0; i < ms.Len(); i++ {
						if f := l.World.Prog.MethodValue(ms.At(i)); f != nil {
							fns = append(fns, f)
						}
					}
				}
			}
		}
		seen := map[*ssa.Function]bool{}
		var visit func(f *ssa.Function)
		visit = func(f *ssa.Function) {
			if seen[f] || f.Blocks == nil {
				return
			}
			seen[f] = true
			for _, b := range f.Blocks {
				for _, ins := range b.Instrs {
					if r, ok := ins.(*ssa.Range); ok {
						if _, isMap := r.X.Type().Underlying().(*types.Map); isMap {
							pos := l.Fset.Position(r.Pos())
							out = append(out, fmt.Sprintf("%s:%d %s", pos.Filename, pos.Line, f.String()))
						}
					}
				}
			}
			for _, a := range f.AnonFuncs {
				visit(a)
			}
		}
		for _, f := range fns {
			visit(f)
		}
	}
	sort.Strings(out)
	prev := ""
	for _, o := range out {
		if o != prev {
			fmt.Println(o)
		}
		prev = o
	}
}
