// vcheck <ID> --tier quick|thorough : decide one property by symbolic execution of /repo's current tree.
package main

import (
	"flag"
	"fmt"
	"os"
	"runtime/debug"
	"strconv"

	"verif/check"
)

func main() {
	tier := flag.String("tier", "quick", "quick|thorough")
	replay := flag.String("replay", "", "replay a counterexample file natively")
	if len(os.Args) < 2 {
		fmt.Fprintln(os.Stderr, "usage: vcheck <ID> [--tier quick|thorough] [--replay file]")
		os.Exit(2)
	}
	id := os.Args[1]
	flag.CommandLine.Parse(os.Args[2:])
	if t := os.Getenv("VERIF_TIER"); t != "" && *tier == "" {
		*tier = t
	}
	seed := int64(1)
	if s := os.Getenv("VERIF_SEED"); s != "" {
		if v, err := strconv.ParseInt(s, 10, 64); err == nil {
			seed = v
		}
	}
	debug.SetGCPercent(200)
	if *replay != "" {
		os.Exit(check.Replay(id, *replay))
	}
	if id == "SELFTEST" {
		os.Exit(check.SelfTest())
	}
	fn, ok := check.Props[id]
	if !ok {
		fmt.Fprintln(os.Stderr, "unknown property", id)
		os.Exit(2)
	}
	c, err := check.NewCtx(id, *tier, seed)
	if err != nil {
		fmt.Fprintln(os.Stderr, "setup failed:", err)
		os.Exit(2)
	}
	code := fn(c)
	c.Close()
	os.Exit(code)
}
