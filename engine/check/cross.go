package check

import (
	"math/rand"
	"strings"

	"verif/sym"
)

// CrossStats: sampled branch/assertion queries re-decided stand-alone by three solvers.
type CrossStats struct {
	Sampled  int            `json:"sampled_queries"`
	BySolver map[string]int `json:"decided_by_solver"`
	Disagree int            `json:"disagreements"`
	Errors   int            `json:"errors"`
}

// CrossCheck re-decides up to 120 sampled stand-alone queries with z3 4.8.12, z3 5.1.0 and cvc5.
func CrossCheck(samples []string, seed int64) CrossStats {
	cs := CrossStats{BySolver: map[string]int{}}
	if len(samples) == 0 {
		return cs
	}
	r := rand.New(rand.NewSource(seed))
	r.Shuffle(len(samples), func(i, j int) { samples[i], samples[j] = samples[j], samples[i] })
	if len(samples) > 120 {
		samples = samples[:120]
	}
	cs.Sampled = len(samples)
	answers := make([][]string, len(samples))
	for _, spec := range []sym.SolverSpec{sym.Z3Old, sym.Z3New, sym.CVC5} {
		sol, err := sym.StartSolver(spec)
		if err != nil {
			cs.Errors++
			continue
		}
		for i, txt := range samples {
			body := strings.TrimSuffix(txt, "(check-sat)\n")
			sol.Send("(push 1)\n" + body)
			ans := sol.CheckSat()
			sol.Send("(pop 1)\n")
			if strings.HasPrefix(ans, "error") || ans == "unknown" {
				cs.Errors++
			} else {
				cs.BySolver[spec.Name]++
			}
			answers[i] = append(answers[i], ans)
		}
		sol.Close()
	}
	for _, a := range answers {
		for k := 1; k < len(a); k++ {
			if a[k] != a[0] {
				cs.Disagree++
				break
			}
		}
	}
	return cs
}
