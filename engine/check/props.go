package check

import (
	"fmt"
	"math/rand"
	"os"
	"path/filepath"
	"sort"
	"strings"
	"time"
)

// HoleDocLens: byte lengths of vHoleDocs (harness/core/zz_verif_hole.go); only used to pick cut positions (a cut beyond the end is clamped by the harness).
var HoleDocLens = []int{560, 150, 520, 150, 341}

// NumPrefixes must equal len(vPrefixes) in harness/core/zz_verif_prefixes.go.
const NumPrefixes = 77

const contractLoc = "jerr.NewLocation replaced by its contract (panics iff the file is nil; returns File/Index unchanged; Line, Column, Quote opaque) — the contract itself is decided on the real code by the location-contract jobs (C07, also run inside C01)"
const contractRune = "bytes.Bytes.DecodeRune (used only to render the offending character into error text) evaluated on the concrete witness; error message text after the constant prefix is outside the claim"


// corpusFiles: the .jst files under /repo/testdata in the order vCorpusFile numbers them.
func corpusFiles() []string {
	var files []string
	filepath.Walk(filepath.Join(RepoDir, "testdata"), func(p string, info os.FileInfo, err error) error {
		if err == nil && !info.IsDir() && strings.HasSuffix(p, ".jst") {
			files = append(files, p)
		}
		return nil
	})
	sort.Strings(files)
	return files
}

// corpusJobs (C01, C04, C17): the repository's own corpus as a document family of HCorpusHole —
// `windows` windows of 100 files as they are (the file index is the symbolic input: one path per
// file; windows < 0: all files) and `holes` sampled (file, cut) pairs with 2 symbolic bytes
// substituted at the cut. check: 1 = build only, 4 = + JDoc Exchange bytes, 17 = + OpenAPI export.
// Returns the number of accepted documents.
func corpusJobs(c *Ctx, check int64, windows, holes int, seedOff int64) int {
	files := corpusFiles()
	if len(files) == 0 {
		c.Inconclusive("no corpus files under " + RepoDir + "/testdata")
		return 0
	}
	rng := rand.New(rand.NewSource(c.Seed + seedOff))
	base := Job{Pkg: "core", Fn: "HCorpusHole", Stubs: []string{"loc", "rune"}, PanicIsViolation: true, MaxPaths: 500000, Timeout: time.Hour, MaxSteps: 60000000, MaxDepth: 2000, Quiet: true,
		AllowDrops: []string{"on symbolic operand"}}
	accepted := 0
	nWin := (len(files) + 99) / 100
	var wins []int
	if windows < 0 || windows >= nWin {
		for w := 0; w < nWin; w++ {
			wins = append(wins, w)
		}
	} else {
		for _, w := range rng.Perm(nWin)[:windows] {
			wins = append(wins, w)
		}
		sort.Ints(wins)
	}
	for _, w := range wins {
		lo, hi := w*100, w*100+99
		if hi >= len(files) {
			hi = len(files) - 1
		}
		j := base
		j.Name, j.Params = fmt.Sprintf("corpus files #%d..#%d as they are", lo, hi), map[string]int64{"lo": int64(lo), "hi": int64(hi), "k": 0, "check": check}
		jr := c.RunJob(j)
		accepted += jr.Stats.Reached["accepted"]
	}
	for h := 0; h < holes; h++ {
		i := rng.Intn(len(files))
		st, err := os.Stat(files[i])
		if err != nil || st.Size() == 0 {
			continue
		}
		cut := rng.Intn(int(st.Size()) + 1)
		j := base
		j.Name, j.Params = fmt.Sprintf("corpus file #%d cut=%d +2B", i, cut), map[string]int64{"i": int64(i), "cut": int64(cut), "k": 2, "check": check}
		jr := c.RunJob(j)
		accepted += jr.Stats.Reached["accepted"]
	}
	return accepted
}

const corpusNote = "corpus family (HCorpusHole): the .jst projects under /repo/testdata (the maintainers' own fixtures: every feature of the language, the schema rules, the negative cases) as they are — all of them in both tiers; the file index is the symbolic input of a window of 100 files — and with 2 symbolic bytes substituted at sampled cuts; INCLUDEd files are read from the real file system, an INCLUDE name holding a symbolic byte resolves to nothing"

// PropFn runs all jobs of a property for a tier and returns the exit code.
type PropFn func(c *Ctx) int

var Props = map[string]PropFn{
	"C13": propC13,
	"C01": propC01,
	"C07": propC07,
	"C14": propC14,
	"C12": propC12,
	"C11": propC11,
	"C10": propC10,
	"C19": propC19,
	"C15": propC15,
	"C16": propC16,
	"C04": propC04,
	"C17": propC17,
	"C08": propC08,
	"C09": propC09,
	"C06": propC06,
	"C05": propC05,
	"C03": propC03,
	"C02": propC02,
}

func propC01(c *Ctx) int {
	thorough := c.Tier == "thorough"
	maxN, k := 4, 2
	if thorough {
		maxN, k = 5, 3
	}
	base := Job{Pkg: "core", Stubs: []string{"loc", "rune"}, PanicIsViolation: true, MaxPaths: 3000000, Timeout: 60 * time.Minute, MaxSteps: 3000000, MaxDepth: 400, ReplayCap: 40000,
		AllowDrops: []string{"on symbolic operand"}}
	// a. all-symbolic root files through the whole build
	for n := 0; n <= maxN; n++ {
		j := base
		j.Name, j.Fn, j.Params = fmt.Sprintf("build all-symbolic n=%d", n), "HBuild", map[string]int64{"n": int64(n), "pre": 0}
		c.RunJob(j)
	}
	// a'. k symbolic bytes after every witness prefix (one per family of scanner/core state)
	for pre := 1; pre < NumPrefixes; pre++ {
		j := base
		j.Name, j.Fn, j.Params = fmt.Sprintf("build prefix#%d +%dB", pre, k), "HBuild", map[string]int64{"n": int64(k), "pre": int64(pre)}
		c.RunJob(j)
	}
	// a''. symbolic holes (truncating and substituting) cut into representative documents
	holeLens := HoleDocLens
	rng := rand.New(rand.NewSource(c.Seed))
	for doc, L := range holeLens {
		for mode := 0; mode <= 1; mode++ {
			var cuts []int
			if thorough {
				for p := 0; p <= L; p++ {
					cuts = append(cuts, p)
				}
			} else {
				for i := 0; i < 12; i++ {
					cuts = append(cuts, rng.Intn(L+1))
				}
			}
			for ci, cut := range cuts {
				// thorough: every position with 2 symbolic bytes, every 8th position with 3 (every
				// position with 3 bytes is ~3 h of solver time and was never run to the end: not registered)
				hk := k
				if thorough && ci%8 != 0 {
					hk = 2
				}
				j := base
				j.Name, j.Fn = fmt.Sprintf("hole doc#%d mode=%d cut=%d +%dB", doc, mode, cut, hk), "HBuildHole"
				j.Params = map[string]int64{"doc": int64(doc), "cut": int64(cut), "k": int64(hk), "mode": int64(mode)}
				j.Quiet = true
				c.RunJob(j)
			}
		}
	}
	// b. macro call graphs (cycles of any length, undefined targets)
	for m := 1; m <= 3; m++ {
		j := base
		j.Name, j.Fn, j.Params = fmt.Sprintf("macro graph %d macros", m), "HMacroGraph", map[string]int64{"macros": int64(m)}
		j.MustReach = []string{"expanded"}
		c.RunJob(j)
	}
	// b'. every place that can name a user type x every notation / self-reference the type can have
	{
		j := base
		j.Name, j.Fn, j.Params = "reference matrix", "HRefMatrix", nil
		j.Stubs = []string{"rune"}
		j.MustReach = []string{"accepted", "rejected"}
		c.RunJob(j)
	}
	// c. the public entry point on missing / directory / empty / arbitrary root files
	for kind := 0; kind <= 3; kind++ {
		j := base
		j.Pkg, j.Fn = "kit", "HNewJapi"
		j.Name, j.Params = fmt.Sprintf("NewJapi kind=%d", kind), map[string]int64{"kind": int64(kind), "n": 3}
		c.RunJob(j)
	}
	// d. include graphs (cyclic, self, missing, directory) — shared with C14
	{
		j := base
		j.Name, j.Fn, j.Params = "include graph 3 files", "HIncludeGraph", map[string]int64{"files": 3}
		c.RunJob(j)
	}
	// e. the schema-rule matrix and the corpus family: builds only
	{
		j := base
		j.Name, j.Fn, j.Params = "schema matrix", "HSchemaMatrix", map[string]int64{"build": 1}
		j.Stubs = []string{"rune"}
		j.MustReach = []string{"accepted", "rejected", "accepted-as-type"}
		c.RunJob(j)
	}
	if thorough {
		corpusJobs(c, 1, -1, 400, 101)
	} else {
		corpusJobs(c, 1, -1, 25, 101)
	}
	// the NewLocation contract the stub relies on
	locationContractJobs(c, 4)
	holeNote := "hole family (HBuildHole): symbolic bytes cut into 5 representative documents, truncating and substituting; quick: 12 sampled cuts per document and mode with 2 bytes; thorough: EVERY position with 2 bytes and every 8th position with 3 bytes (every position with 3 bytes needs ~3 h of solver time and was never run to the end: not part of the registered bound)"
	return c.Finish("model_checking", []string{
		holeNote,
		"schema matrix (HSchemaMatrix): 74 fragments of the schema language (every type by name, every rule with the types it applies to, enums inline and by name, references, or with rule sets, allOf, additionalProperties with each of its 19 values) x 11 places a schema value can stand (root / property of a type, array item, response, request, Query / Path / Headers property, JSON-RPC Params and Result, same-code responses): the build terminates without a panic",
		corpusNote,
		fmt.Sprintf("bounds: root file of <= %d arbitrary bytes; %d arbitrary bytes after each of %d witness prefixes (harness/core/zz_verif_prefixes.go); macro graphs <= 3 macros; include graphs <= 3 files + root; per-path budget 3e6 SSA steps / call depth 400 (exceeding it = candidate hang / runaway recursion, replayed natively in a subprocess)", maxN, k, NumPrefixes-1),
		"reference matrix (HRefMatrix): 18 places that can name a user type (Path property / root / or-rule / allOf, request and response Headers, Query root / property, Request, response, array response, Params, Result, allOf of a type, or / type / additionalProperties rules, key shortcut) x 9 notations of the type (jsight object / scalar / array, regex, regex whose example holds a control character, any, empty, a type that refers to itself, a cycle of two) x definition before / after use — all symbolic: the build ends with a catalog or a located error (no panic, no runaway recursion); known finding F-C01-key-shortcut-self-reference (recursion inside jsight-schema-core)",
		"file system = virtual (os.Stat, os.ReadFile, reader.Read modelled; absent => ErrNotExist; directory => error)",
		"jsight-schema-core (schema scanner/compiler) is executed symbolically from its own SSA; regexp, time.Parse, net/mail, reggen, json.Unmarshal run natively on concrete operands and are an explicit drop on symbolic ones",
		"the location contract is discharged for contents <= 4 bytes at every index and for long lines (198..203 / 320 bytes, 30 boundary indices; HLocationLong)",
		contractLoc, contractRune,
	}, map[string]interface{}{})
}

// locationContractJobs: jerr.NewLocation for all contents <= n bytes and all indices (never panics on a non-nil file; File/Index echo; truthful line/column/quote).
func locationContractJobs(c *Ctx, n int) {
	for conv := 0; conv <= 2; conv++ {
		for k := 0; k <= n; k++ {
			c.RunJob(Job{Name: fmt.Sprintf("location contract conv=%d n=%d", conv, k), Pkg: "jerr", Fn: "HLocation",
				Params: map[string]int64{"n": int64(k), "conv": int64(conv)}, PanicIsViolation: true, MaxPaths: 2000000, Timeout: 30 * time.Minute})
		}
	}
	// lines around and above the 200-byte quote limit (the loc contract stub of the build harnesses relies on this too)
	c.RunJob(Job{Name: "location long lines", Pkg: "jerr", Fn: "HLocationLong", PanicIsViolation: true, MaxPaths: 100000, Timeout: 20 * time.Minute, MustReach: []string{"inside", "beyond-end"}})
}

func propC07(c *Ctx) int {
	n := 5
	if c.Tier == "thorough" {
		n = 8
	}
	locationContractJobs(c, n)
	for v := int64(0); v <= 4; v++ {
		c.RunJob(Job{Name: fmt.Sprintf("include trace variant=%d", v), Pkg: "core", Fn: "HIncludeTrace", Params: map[string]int64{"variant": v},
			Stubs: []string{"rune"}, PanicIsViolation: true, MaxPaths: 100000, Timeout: 30 * time.Minute, MustReach: []string{"trace"}})
	}
	// errors inside schema bodies: located at the invalid byte, in the file that holds the body
	for mode := int64(0); mode <= 1; mode++ {
		c.RunJob(Job{Name: fmt.Sprintf("body error location mode=%d", mode), Pkg: "core", Fn: "HBodyError", Params: map[string]int64{"mode": mode}, Stubs: []string{"rune"}, PanicIsViolation: true, MaxPaths: 100000, Timeout: 30 * time.Minute,
			MaxSteps: 8000000, MaxDepth: 1000, MustReach: []string{"body-error-located"}})
	}
	c.RunJob(Job{Name: "fault inside a cycle of user types", Pkg: "core", Fn: "HTypeCycleError", Stubs: []string{"rune"}, PanicIsViolation: true, MaxPaths: 100000, Timeout: 30 * time.Minute,
		MaxSteps: 8000000, MaxDepth: 1000, MustReach: []string{"cycle-located", "cycle-accepted"}})
	// every error of the build: file in the project, index inside the file (rides on the C01 harnesses)
	for _, pre := range []int64{0, 9, 18, 27, 45, 46, 48, 56, 58} {
		c.RunJob(Job{Name: fmt.Sprintf("error location prefix#%d +2B", pre), Pkg: "core", Fn: "HBuild", Params: map[string]int64{"n": 2, "pre": pre},
			Stubs: []string{"rune"}, PanicIsViolation: false, MaxPaths: 2000000, Timeout: 30 * time.Minute, AllowDrops: []string{"on symbolic operand"}})
	}
	return c.Finish("model_checking", []string{
		"errors inside schema bodies (HBodyError): an invalid byte (symbolic choice of byte and property) in the body of TYPE / Query / Headers / Path / Request / response / Params / Result / Body — directive kind, placement (root, INCLUDEd file, pasted MACRO body) and the line-end convention of the project (LF / CRLF / CR) symbolic — is reported in the file that holds the body at the index of that byte with its line, column and quote; mode 1: the same with a well-formed body that references an undefined type (error raised when the catalog is compiled: index = the reference; for Path, whose checks run after all bodies, the Path keyword)",
		"cycle of user types (HTypeCycleError): @b -> @c -> @d -> @b with optional references, a rule violation in a symbolic non-empty subset of the members (members distinguishable by key length and bound), definition order and the presence of an ENUM symbolic: the error is on the line of a faulty member's faulty property",
		"long lines (HLocationLong): first line of 198..203 / 320 bytes with 2+2 arbitrary bytes, index symbolic over 30 boundary positions (file start, byte 100, the 197/200-byte cut, line end, file end and past it): no panic, exact line/column, quote = the line cut to 197 bytes + \"...\" above 200 bytes",
		"include trace: root.jst with two INCLUDEs (targets symbolic over {a,b}), a and b include c at different lines; error raised in c during scanning (live stack) and after scanning (directive include tracer); variant 2: failing root directive right before an INCLUDE (no trace); variants 3/4: failing directive that FOLLOWS a nested INCLUDE inside the included file, scan-time and compile-time (the nested file must be gone from the trace): the rendered trace must be [error file:line, includer:line of its INCLUDE, root:line of the INCLUDE followed]",
		"error location of the whole build: 2 arbitrary bytes after 9 witness prefixes with the REAL NewLocation (no contract stub): File inside the project, Index <= len(File)",
		fmt.Sprintf("bound: file content <= %d arbitrary bytes, every index 0..len+2, one of three line-ending conventions (LF only / CRLF only / CR only); lines longer than 200 bytes only through HLocationLong", n),
		"reference line/column/quote computed in the harness (harness/jerr/zz_verif_c07.go): line = 1 + terminators before the index, column = bytes since the line start + 1, quote = the line without terminator, leading blanks dropped",
	}, map[string]interface{}{})
}

func propC14(c *Ctx) int {
	thorough := c.Tier == "thorough"
	un, nn := 5, 3
	if thorough {
		un, nn = 7, 4
	}
	for n := 0; n <= un; n++ {
		c.RunJob(Job{Name: fmt.Sprintf("name unit n=%d", n), Pkg: "core", Fn: "HIncludeNameUnit", Params: map[string]int64{"n": int64(n)},
			PanicIsViolation: true, MaxPaths: 2000000, Timeout: 30 * time.Minute})
	}
	for n := 0; n <= nn; n++ {
		c.RunJob(Job{Name: fmt.Sprintf("name through scanner+fs n=%d", n), Pkg: "core", Fn: "HIncludeName", Params: map[string]int64{"n": int64(n)},
			Stubs: []string{"loc", "rune"}, PanicIsViolation: true, MaxPaths: 2000000, Timeout: 30 * time.Minute})
	}
	c.RunJob(Job{Name: "include graph 3 files", Pkg: "core", Fn: "HIncludeGraph", Params: map[string]int64{"files": 3},
		Stubs: []string{"loc", "rune"}, PanicIsViolation: true, MaxPaths: 2000000, Timeout: 30 * time.Minute,
		MustReach: []string{"graph-accepted", "graph-cycle", "graph-missing", "graph-dir"}})
	c.RunJob(Job{Name: "include cycle through any file", Pkg: "core", Fn: "HIncludeCycle", Params: map[string]int64{"open": 0},
		Stubs: []string{"loc", "rune"}, PanicIsViolation: true, MaxPaths: 200000, Timeout: 30 * time.Minute, MustReach: []string{"chain-accepted", "chain-cycle"}})
	c.RunJob(Job{Name: "include cycle with an open context", Pkg: "core", Fn: "HIncludeCycle", Params: map[string]int64{"open": 1},
		Stubs: []string{"loc", "rune"}, PanicIsViolation: true, MaxPaths: 200000, Timeout: 30 * time.Minute, MustReach: []string{"chain-accepted"}})
	c.RunJob(Job{Name: "include sub-directories", Pkg: "core", Fn: "HIncludeDirs", Stubs: []string{"loc", "rune"}, PanicIsViolation: true, MaxPaths: 1000, Timeout: 10 * time.Minute,
		MustReach: []string{"dirs-ok", "dirs-missing"}})
	return c.Finish("model_checking", []string{
		"cycles through any file (HIncludeCycle): files r (root, starting with JSIGHT), a, b, each with an optional directive before its INCLUDE and a symbolic target in {r, a, b} or a leaf: the chain from the root ends in a leaf (accepted) or returns to a file on the chain (recursion error located in a file of the chain); second job: file a opens an explicit context before its INCLUDE (known finding F-C14-late-cycle-detection)",
		"nested directories: root includes a/x and b/y (order symbolic), both include \"t\"; a/t exists, b/t exists or not (symbolic), a decoy t sits next to the root: resolution must be relative to the including file",
		fmt.Sprintf("bounds: INCLUDE parameter of <= %d arbitrary bytes (all 256 values) for the name check alone, <= %d bytes through scanner + processInclude + virtual file system; include graphs: root with two INCLUDEs + 3 files with one INCLUDE each, targets over {a,b,c,directory,missing,none}", un, nn),
		"file system = virtual (every path handed to os.Stat/os.ReadFile is logged symbolically and asserted to stay inside the including file's directory); symlinks, case-folding file systems and Windows separators are outside the claim",
		"path/filepath.Join/Dir/Clean are executed from the standard library's own SSA",
		contractLoc, contractRune,
	}, map[string]interface{}{})
}

func propC13(c *Ctx) int {
	maxCtx := 0
	if c.Tier == "thorough" {
		maxCtx = 8
	}
	var must []string
	for _, kw := range []string{"JSIGHT", "INFO", "Title", "Version", "Description", "SERVER", "BaseUrl", "URL", "GET", "POST", "PUT", "PATCH", "DELETE", "Body", "Request", "Path", "Headers", "Query", "TYPE", "ENUM", "MACRO", "PASTE", "INCLUDE", "Protocol", "Method", "Params", "Result", "TAG", "Tags", "OperationId", "HTTP-response-code"} {
		must = append(must, "kw:"+kw)
	}
	for ctx := 0; ctx <= maxCtx; ctx++ {
		for n := 1; n <= 13; n++ {
			j := Job{Name: fmt.Sprintf("keyword ctx=%d n=%d", ctx, n), Pkg: "scanner", Fn: "HKeyword",
				Params: map[string]int64{"n": int64(n), "ctx": int64(ctx)}, Stubs: []string{"loc", "rune"},
				PanicIsViolation: true, MaxPaths: 200000, Timeout: 20 * time.Minute}
			if n == 13 {
				j.MustReach = append(append([]string{}, must...), "reject", "terminated", "bad-terminator")
			}
			if ctx > 0 && n != 4 && n != 8 && n != 13 {
				continue // other contexts: three lengths (all keywords complete at 13)
			}
			c.RunJob(j)
		}
	}
	return c.Finish("model_checking", []string{
		"bound: directive-start position followed by at most 13 arbitrary bytes (all 256 values each); the scanner input ends after the deciding byte (first deviating byte / keyword terminator)",
		"start contexts: quick = file start; thorough = 9 listed concrete prefixes (harness/scanner/zz_verif_c13.go)",
		"specification = frozen keyword list harness/scanner/zz_verif_spec.go (30 keywords + [1-5][0-9][0-9])",
		contractLoc, contractRune,
		"strconv.Atoi, strings.HasPrefix, sync.Once modelled/interpreted as listed in DESIGN.md §2.5",
	}, map[string]interface{}{"bounds": "n<=13 bytes after the directive start; all byte values"})
}

const NumC12Prefixes = 70 // len(vC12Prefixes) in harness/scanner/zz_verif_c12.go

func propC12(c *Ctx) int {
	thorough := c.Tier == "thorough"
	maxN, k := 4, 2
	if thorough {
		maxN, k = 5, 3
	}
	base := Job{Pkg: "scanner", Stubs: []string{"loc", "rune"}, PanicIsViolation: true, MaxPaths: 3000000, Timeout: 60 * time.Minute, ReplayCap: 60000}
	for n := 0; n <= maxN; n++ {
		j := base
		j.Name, j.Fn, j.Params = fmt.Sprintf("wf all-symbolic n=%d", n), "HScanWF", map[string]int64{"n": int64(n), "pre": 0}
		c.RunJob(j)
	}
	for pre := 1; pre < NumC12Prefixes; pre++ {
		j := base
		j.Name, j.Fn, j.Params = fmt.Sprintf("wf prefix#%d +%dB", pre, k), "HScanWF", map[string]int64{"n": int64(k), "pre": int64(pre)}
		c.RunJob(j)
	}
	// exactness: rendered directive lines
	type cfg struct{ l1, l2, q1, q2, la, ml, nl int64 }
	cfgs := []cfg{{2, 0, 0, 0, -1, 0, 0}, {2, 2, 0, 1, -1, 0, 1}, {1, 0, 1, 0, 2, 0, 0}, {2, 0, 0, 0, 2, 1, 2}, {0, 0, 0, 0, 1, 0, 3}, {2, 1, 1, 0, 0, 1, 3},
		{1, 0, 0, 0, 2, 0, 2}, {1, 0, 0, 0, 2, 0, 1}, {0, 0, 0, 0, 2, 1, 1}}
	if thorough {
		cfgs = append(cfgs, cfg{3, 2, 0, 0, 3, 0, 0}, cfg{3, 0, 1, 0, 3, 1, 1}, cfg{2, 3, 1, 1, 2, 0, 2}, cfg{4, 0, 0, 0, -1, 0, 3})
	}
	nkw := int64(14)
	for kw := int64(0); kw < nkw; kw++ {
		for ci, g := range cfgs {
			if !thorough && (int(kw)+ci)%3 != int(c.Seed)%3 {
				continue // quick: a third of the matrix (every keyword and every shape still occurs)
			}
			j := base
			j.Name, j.Fn = fmt.Sprintf("exact kw#%d shape#%d", kw, ci), "HScanExact"
			j.Params = map[string]int64{"kw": kw, "l1": g.l1, "l2": g.l2, "q1": g.q1, "q2": g.q2, "la": g.la, "ml": g.ml, "nl": g.nl}
			j.MustReach = []string{"exact"}
			c.RunJob(j)
		}
	}
	// exactness of bodies followed by trivia, and of Description free text ended by a directive
	kb := int64(2)
	if thorough {
		kb = 4
	}
	for tpl := int64(0); tpl < 6; tpl++ {
		j := base
		j.Name, j.Fn, j.Params, j.MustReach = fmt.Sprintf("exact body tpl#%d +%dB trivia", tpl, kb), "HScanExactBody", map[string]int64{"tpl": tpl, "k": kb}, []string{"body-exact"}
		c.RunJob(j)
	}
	for k := int64(1); k <= kb; k++ {
		j := base
		j.Name, j.Fn, j.Params, j.MustReach = fmt.Sprintf("exact description text k=%d", k), "HScanExactDescription", map[string]int64{"k": k}, []string{"description-exact"}
		c.RunJob(j)
	}
	{
		j := base
		j.Name, j.Fn, j.Params, j.MustReach = "description text ended by keyword x tail", "HScanDescriptionEnd", nil, []string{"description-end-exact"}
		c.RunJob(j)
	}
	kc := int64(8)
	if thorough {
		kc = 14
	}
	for form := int64(0); form <= 1; form++ {
		for site := int64(0); site <= 2; site++ {
			j := base
			j.Name, j.Fn, j.Params, j.MustReach = fmt.Sprintf("comment content form=%d site=%d k=%d", form, site, kc), "HScanComment", map[string]int64{"k": kc, "site": site, "form": form}, []string{"comment-exact"}
			c.RunJob(j)
		}
	}
	return c.Finish("model_checking", []string{
		fmt.Sprintf("comments (HScanComment): a line comment / block comment with %d arbitrary content bytes (block: no ### inside, not ending in #) as trailing comment, comment line or last line of the file, followed by further directives and a block comment: the lexeme stream is exactly that of the directives (a comment yields nothing and hides nothing)", kc),
		"exactness of bodies (a # comment after a jsight / enum body is a comment of the schema language: there the body lexeme may extend into it, as jsight-schema-core's Len() decides): 6 templates (TYPE/ENUM/regex/Body/Headers/Request bodies) followed by 2/4 symbolic trivia bytes (blanks, line ends, # comments): body lexeme = rendered body; Description free text of 1..2/4 arbitrary bytes ended by the next directive: Text lexeme = bytes between the keyword line and the next keyword",
		fmt.Sprintf("well-formedness: every file of <= %d arbitrary bytes, and %d arbitrary bytes after each of %d state-witness prefixes; exactness: directive lines KW (P1)? (P2)? (annotation)? line-end for 14 keywords with symbolic parameter/annotation bytes (fields <= 3/4 bytes), bare and quoted, // and /* */, LF/CRLF/CR/EOF", maxN, k, NumC12Prefixes-1),
		"end of a Description free text (HScanDescriptionEnd): the text is followed by a directive line whose keyword (26 keywords, every length from 3 to 11 bytes, two response codes) and tail (LF / CRLF / CR, blank + line end, a parameter before a line end or end of file, a comment, another directive line) are symbolic choices, with symbolic indentation and line end of the text line: the Text lexeme ends exactly in front of the keyword and the keyword is reported",
		"lexeme grammar automaton and expected extents are computed in the harness (harness/scanner/zz_verif_c12.go, zz_verif_c12x.go)",
		"schema/enum body extents are decided by jsight-schema-core (executed from its SSA); their content is outside the claim",
		contractLoc, contractRune,
	}, map[string]interface{}{})
}

func propC11(c *Ctx) int {
	maxN := 2
	if c.Tier == "thorough" {
		maxN = 3
	}
	for n := 1; n <= maxN; n++ {
		c.RunJob(Job{Name: fmt.Sprintf("context events n=%d", n), Pkg: "core", Fn: "HContext", Params: map[string]int64{"n": int64(n)},
			Stubs: []string{"loc", "rune"}, PanicIsViolation: true, MaxPaths: 20000000, Timeout: 3 * time.Hour, ReplayCap: 50000,
			MustReach: []string{"accepted", "rejected"}})
	}
	// longer sequences over kind subsets (HTTP / MACRO subset; JSON-RPC / INFO / SERVER subset)
	subsetJobs := [][2]int64{{3, 1}}
	if c.Tier == "thorough" {
		subsetJobs = [][2]int64{{3, 2}, {4, 1}}
	}
	for _, sj := range subsetJobs {
		c.RunJob(Job{Name: fmt.Sprintf("context events n=%d subset#%d", sj[0], sj[1]), Pkg: "core", Fn: "HContext", Params: map[string]int64{"n": sj[0], "subset": sj[1]},
			Stubs: []string{"loc", "rune"}, PanicIsViolation: true, MaxPaths: 20000000, Timeout: 3 * time.Hour, ReplayCap: 50000})
	}
	return c.Finish("model_checking", []string{
		"plus sequences of 3 (quick) / 4 (thorough) events over 12-kind subsets (harness/core/zz_verif_c11.go vC11Subsets)",
		fmt.Sprintf("bound: every sequence of <= %d events, each a directive of any of the 31 kinds (with/without Path, followed or not by '(') or a ')', then end of file — kinds and flags are symbolic integers/booleans", maxN),
		"reference = frozen context table + stack automaton (harness/core/zz_verif_spec.go, zz_verif_c11.go), never derived from directive/enumeration.go",
		"the real processContext / closeLastExplicitContext / processEOF / processCurrentDirective are driven in the order core.next calls them; keyword text -> kind is covered by C13, text-level '(' placement by C12",
		contractLoc,
	}, map[string]interface{}{})
}

func propC10(c *Ctx) int {
	thorough := c.Tier == "thorough"
	shapes := [][2]int64{{0, 1}, {1, 1}}
	if thorough {
		shapes = append(shapes, [2]int64{0, 2}, [2]int64{1, 2})
	}
	for _, sh := range shapes {
		c.RunJob(Job{Name: fmt.Sprintf("paste P=%d S=%d", sh[0], sh[1]), Pkg: "core", Fn: "HPaste", Params: map[string]int64{"np": sh[0], "ns": sh[1]},
			Stubs: []string{"loc", "rune"}, PanicIsViolation: true, MaxPaths: 20000000, Timeout: 3 * time.Hour, ReplayCap: 50000, MustReach: []string{"same-tree"}})
	}
	// a directive FOLLOWING the paste (kinds over a 12-kind subset; all kinds in the thorough tier)
	sub := int64(1)
	if thorough {
		sub = 0
	}
	c.RunJob(Job{Name: "paste P=1 S=1 F=1", Pkg: "core", Fn: "HPaste", Params: map[string]int64{"np": 1, "ns": 1, "nf": 1, "subset": sub},
		Stubs: []string{"loc", "rune"}, PanicIsViolation: true, MaxPaths: 20000000, Timeout: 3 * time.Hour, ReplayCap: 50000, MustReach: []string{"same-tree"}})
	// text level: call site x block x following directive x indentation x position of the MACRO definition, catalog digests compared
	c.RunJob(Job{Name: "macro graphs with two calls per macro", Pkg: "core", Fn: "HMacroDag", Stubs: []string{"loc", "rune"}, PanicIsViolation: true, MaxPaths: 200000, Timeout: time.Hour,
		MaxSteps: 3000000, MaxDepth: 400, MustReach: []string{"dag-accepted", "cycle"}})
	c.RunJob(Job{Name: "one macro used twice", Pkg: "core", Fn: "HPasteTwice", Stubs: []string{"rune"}, PanicIsViolation: true, MaxPaths: 200000, Timeout: time.Hour,
		MaxSteps: 8000000, MaxDepth: 1000, MustReach: []string{"same-catalog"}})
	c.RunJob(Job{Name: "paste text-level", Pkg: "core", Fn: "HPasteText", Stubs: []string{"loc", "rune"}, PanicIsViolation: true, MaxPaths: 200000, Timeout: time.Hour,
		MaxSteps: 5000000, MaxDepth: 1000, MustReach: []string{"same-catalog"}})
	for m := int64(1); m <= 3; m++ {
		c.RunJob(Job{Name: fmt.Sprintf("macro graph %d macros", m), Pkg: "core", Fn: "HMacroGraph", Params: map[string]int64{"macros": m},
			Stubs: []string{"loc", "rune"}, PanicIsViolation: true, MaxPaths: 2000000, Timeout: time.Hour, MaxSteps: 3000000, MaxDepth: 400, MustReach: []string{"expanded"}})
	}
	// the repository's own corpus: every run of top-level blocks of a file becomes a macro, pasted in its place
	{
		files := corpusFiles()
		nWin := (len(files) + 99) / 100
		rng := rand.New(rand.NewSource(c.Seed + 10))
		wins, maxn := rng.Perm(nWin), int64(5)
		if c.Tier == "thorough" {
			maxn = 7
		}
		sort.Ints(wins)
		split := 0
		for _, w := range wins {
			lo, hi := w*100, w*100+99
			if hi >= len(files) {
				hi = len(files) - 1
			}
			jr := c.RunJob(Job{Name: fmt.Sprintf("corpus files #%d..#%d, every run of blocks pasted from a macro (<= %d blocks)", lo, hi, maxn), Pkg: "core", Fn: "HCorpusSplit",
				Params: map[string]int64{"lo": int64(lo), "hi": int64(hi), "maxn": maxn, "paste": 1}, Stubs: []string{"loc", "rune"}, PanicIsViolation: true, MaxPaths: 500000, Timeout: 2 * time.Hour,
				MaxSteps: 100000000, MaxDepth: 2000, Quiet: true})
			split += jr.Stats.Reached["split"]
		}
		if split == 0 {
			c.Inconclusive("vacuity: no corpus document was rewritten")
		}
	}
	return c.Finish("model_checking", []string{
		"corpus family (HCorpusSplit, paste=1): every file under /repo/testdata that is accepted, has no MACRO / PASTE / INCLUDE line and 1..5 (quick, all files) / 1..7 (thorough, all files) top-level blocks after JSIGHT: every run of consecutive blocks whose kinds the context table admits inside a MACRO (INFO, SERVER, URL, the methods, TYPE, ENUM — a frozen list) becomes the body of MACRO @zzm ( ... ), defined right after JSIGHT or at the end of the file (symbolic), and PASTE @zzm takes its place: accepted, catalog equal to the one of the original (deep digest, entry by entry)",
		"macro graphs (HMacroDag): macros a, b, c each calling up to two macros (targets symbolic over {a, b, c, none}: diamonds, the same macro called twice, cycles of any shape): rejected with the recursion error exactly when a macro reaches itself",
		"one macro used twice (HPasteTwice): two URLs with a path parameter / two methods / two responses, each calling the same macro (bodies incl. a method with a Path directive), optional directive between the calls, MACRO defined before JSIGHT / after it / at the end: accepted, same deep digest as the bodies written in place, closure",
		"text level (HPasteText): 5 call sites x 11 blocks (incl. resources with path parameters) x 4 following directives x 2 indentations x MACRO defined before JSIGHT / right after it / at the end (all symbolic): the document with the block in place and the document with MACRO/PASTE must both be accepted with equal catalog digests (entities, order, names, annotations, schema text) or rejected with the same message class",
		"relational harness: prefix P (<=1 directive) and body S (<=1 quick / 2 thorough directives), kinds/flags symbolic over all 31 kinds; run 1 scans P S in place, run 2 scans MACRO @m ( S ) and P PASTE @m; after collectMacro/checkMacroForRecursion/processPaste the trees must be equal and contain no MACRO/PASTE",
		"assumed: the rewritten document is itself accepted by the scan (S legal in a MACRO body, PASTE admitted at the call site)",
		"macro call graphs: <=3 macros with symbolic PASTE targets (defined / undefined / none): cycles of any length => recursion error, undefined => macro-not-found, acyclic => accepted",
		"catalog equality follows from tree equality: later phases read only directivesWithPastes (text re-indentation is C08, body content outside)",
		contractLoc, contractRune,
	}, map[string]interface{}{})
}

func propC19(c *Ctx) int {
	for doc := int64(0); doc <= 7; doc++ {
		c.RunJob(Job{Name: fmt.Sprintf("banned pair doc#%d", doc), Pkg: "core", Fn: "HBanned", Params: map[string]int64{"doc": doc},
			Stubs: []string{"loc", "rune"}, PanicIsViolation: true, MaxPaths: 100000, Timeout: time.Hour, MaxSteps: 5000000, MaxDepth: 1000,
			MustReach: []string{"rejected", "unaffected"}})
	}
	return c.Finish("model_checking", []string{
		"four more projects whose last directive is faulty in itself (INCLUDE of a missing file, TYPE with a bad name, a method with two paths, Headers with an unfinished body): rejected also without a ban; when that directive is banned the not-allowed error is due (not the complaint about its arguments), when an absent kind is banned the error is the one without the option",
		"bound: four fixed projects (MACRO, PASTE and an unpasted macro body written only in INCLUDEd files; HTTP kitchen sink with MACRO/PASTE/INCLUDE; JSON-RPC; directives only inside an unused MACRO body and only inside an included file) x banned set {b1,b2} symbolic over all 31 kinds",
		"oracle: some banned kind occurs in the project text => rejected with the not-allowed error located on a keyword of a banned kind; none occurs => same tree and catalog size as without the option",
		contractLoc, contractRune,
	}, map[string]interface{}{})
}

// LayoutDocSites: number of trivia sites per layout document (upper bounds; a site index beyond the end is a no-op in the harness).
var LayoutDocSites = []int{57, 11, 40, 3, 4}

func propC08(c *Ctx) int {
	thorough := c.Tier == "thorough"
	base := Job{Pkg: "core", Stubs: []string{"loc", "rune"}, PanicIsViolation: true, MaxPaths: 200000, Timeout: time.Hour, MaxSteps: 8000000, MaxDepth: 1000, Quiet: true,
		AllowDrops: []string{"on symbolic operand"}}
	// whole-document rewrites
	for doc := int64(0); doc < 5; doc++ {
		for mode := int64(0); mode <= 3; mode++ {
			ks := []int64{1}
			if mode == 2 {
				ks = []int64{1, 2}
				if thorough {
					ks = []int64{1, 2, 3}
				}
			}
			for _, k := range ks {
				j := base
				j.Name, j.Fn, j.Params = fmt.Sprintf("rewrite doc#%d mode=%d k=%d", doc, mode, k), "HLayoutWhole", map[string]int64{"doc": doc, "mode": mode, "k": k}
				c.RunJob(j)
			}
		}
	}
	// trivia inserted at every legal site
	k := int64(2)
	step := 3
	if thorough {
		k, step = 3, 1
	}
	off := int(c.Seed) % step
	for doc, n := range LayoutDocSites {
		for site := 0; site < n+2; site++ {
			if site%step != off && doc == 0 {
				continue // quick tier: every 3rd site of the largest skeleton (seed-rotated); all sites of the others
			}
			j := base
			j.Name, j.Fn, j.Params = fmt.Sprintf("trivia doc#%d site=%d +%dB", doc, site, k), "HLayoutTrivia", map[string]int64{"doc": int64(doc), "site": int64(site), "k": k}
			c.RunJob(j)
			// composition: the same insertion in the skeleton rewritten to CRLF / CR line endings
			convs := []int64{int64(site%2) + 1}
			if thorough {
				convs = []int64{1, 2}
			}
			for _, cv := range convs {
				if !thorough && site%step != off {
					continue
				}
				j := base
				j.Name, j.Fn, j.Params = fmt.Sprintf("trivia doc#%d site=%d +2B conv=%d", doc, site, cv), "HLayoutTrivia", map[string]int64{"doc": int64(doc), "site": int64(site), "k": 2, "conv": cv}
				c.RunJob(j)
			}
		}
	}
	// parameter quoting, annotation style, description layout
	for doc := int64(0); doc < 3; doc++ {
		for _, fn := range []string{"HLayoutQuote", "HLayoutAnnotation"} {
			j := base
			j.Name, j.Fn, j.Params = fmt.Sprintf("%s doc#%d", fn, doc), fn, map[string]int64{"doc": doc}
			c.RunJob(j)
		}
	}
	descr := [][2]int64{{2, 1}, {3, 1}}
	if thorough {
		descr = append(descr, [2]int64{2, 2})
	}
	for _, mw := range descr {
		j := base
		j.Name, j.Fn, j.Params = fmt.Sprintf("description unit lines=%d width=%d", mw[0], mw[1]), "HDescriptionUnit", map[string]int64{"m": mw[0], "w": mw[1]}
		j.Stubs = nil
		c.RunJob(j)
	}
	kcm := int64(4)
	if thorough {
		kcm = 8
	}
	for doc := int64(0); doc < 5; doc++ {
		for form := int64(0); form <= 1; form++ {
			j := base
			j.Name, j.Fn, j.Params = fmt.Sprintf("comment content doc#%d form=%d k=%d", doc, form, kcm), "HLayoutComment", map[string]int64{"doc": doc, "form": form, "k": kcm}
			c.RunJob(j)
		}
	}
	{
		j := base
		j.Name, j.Fn, j.Params = "layout before a body", "HLayoutBody", nil
		j.Stubs = []string{"rune"}
		j.MustReach = []string{"body-layout-compared"}
		c.RunJob(j)
	}
	{
		j := base
		j.Name, j.Fn, j.Params = "multi-line notes", "HNoteLayout", nil
		j.Stubs = []string{"rune"}
		j.MustReach = []string{"notes-compared", "indented"}
		c.RunJob(j)
	}
	// the repository's own corpus with every line end rewritten (CRLF / CR: a symbolic choice; the file index too)
	{
		files := corpusFiles()
		nWin := (len(files) + 99) / 100
		rng := rand.New(rand.NewSource(c.Seed + 8))
		wins := rng.Perm(nWin)
		sort.Ints(wins)
		compared := 0
		for _, w := range wins {
			lo, hi := w*100, w*100+99
			if hi >= len(files) {
				hi = len(files) - 1
			}
			j := base
			j.Name, j.Fn, j.Params = fmt.Sprintf("corpus files #%d..#%d with CRLF / CR line ends", lo, hi), "HCorpusLayout", map[string]int64{"lo": int64(lo), "hi": int64(hi)}
			j.Stubs = []string{"rune"}
			j.MaxSteps, j.MaxDepth = 100000000, 2000
			jr := c.RunJob(j)
			compared += jr.Stats.Reached["same"] + jr.Stats.Reached["rejected"]
		}
		if compared == 0 {
			c.Inconclusive("vacuity: no corpus file was compared")
		}
	}
	return c.Finish("model_checking", []string{
		"multi-line notes (HNoteLayout): /* */ notes that span lines on ENUM values and on schema properties x {LF->CRLF, LF->CR, uniform indentation by one blank / two blanks / a tab}: equal deep digest (which holds every note); known finding F-C08-multiline-enum-note-indentation for the indentation of ENUM value notes",
		"corpus family (HCorpusLayout): every file under /repo/testdata without a CR and without INCLUDE (all 1108), built as written and with every line end rewritten to CRLF or to CR (file index and convention symbolic): the same verdict; accepted: equal deep digest; rejected: the same error class (message up to its first quoted part) on the same line",
		fmt.Sprintf("comment content (HLayoutComment): a '#' line comment / '### ... ###' block comment with %d arbitrary content bytes (any byte but NUL; line comment without line ends; block without ### inside) at a symbolic choice among all frozen trivia sites of each skeleton (outside existing comments): same verdict, same deep digest", kcm),
		"between a keyword line and its body (HLayoutBody): 11 body-carrying directives (TYPE, Query, Headers, Path, Request, response, Params, Result, Body x2, ENUM) x placement (root / pasted MACRO) x 6 rewrites (explicit ( ) around the body; '#' line comment; one-line ### block; multi-line ### block with a blank line; blank + whitespace-only lines; ( ) plus block comment), all symbolic choices; for TYPE and Body a comment before the body is a schema comment (part of the body text, not of the schema) and is discounted from the digest",
		"compositions: trivia insertion x line-ending rewrite (the skeleton and the variant both rewritten to CRLF / CR; every site in the thorough tier, every 3rd in the quick tier); model x layout in C02 (group 9)",
		"relational: 5 skeleton projects (3 accepted incl. MACRO/PASTE/INCLUDE/regex/enum/descriptions/explicit contexts; 2 rule-rejected) built twice, skeleton vs rewrite; equal catalog digest (every entity, order, names, annotations, descriptions, schema text without blanks) or same error class with the error index moved by the inserted length",
		fmt.Sprintf("rewrites: LF->CRLF, LF->CR, uniform indentation by 1..2(3) symbolic blanks, a symbolic trailing blank on every line; %d symbolic trivia bytes (blank line / '#' comment line / trailing blanks / trailing comment) at every %s legal site (sites = positions outside bodies, description texts and annotations, found by scanning the skeleton)", k, map[bool]string{true: "", false: "3rd (seed-rotated)"}[thorough]),
		"quoting a bare parameter (content symbolic), // vs /* */ annotation (content symbolic), Description text: line-ending convention, uniform indent and ( ) wrapping over symbolic lines",
		"annotation whitespace collapsing is modelled exactly for the pattern \\s+ (regexp model, DESIGN.md §2.5); CR handling inside schema bodies belongs to jsight-schema-core (executed from its SSA)",
		contractLoc, contractRune,
	}, map[string]interface{}{})
}

func propC09(c *Ctx) int {
	thorough := c.Tier == "thorough"
	base := Job{Pkg: "core", Fn: "HIncludeSplit", Stubs: []string{"loc", "rune"}, PanicIsViolation: true, MaxPaths: 500000, Timeout: time.Hour, MaxSteps: 8000000, MaxDepth: 1000,
		AllowDrops: []string{"on symbolic operand"}}
	maxSpan := int64(3)
	if thorough {
		maxSpan = 8
	}
	for doc := int64(0); doc < 8; doc++ {
		for span := int64(1); span <= maxSpan; span++ {
			j := base
			j.Name, j.Params = fmt.Sprintf("split doc#%d span=%d", doc, span), map[string]int64{"doc": doc, "span": span, "depth": 1}
			c.RunJob(j)
			if span >= 2 && (thorough || span == 3) {
				j := base
				j.Name, j.Params = fmt.Sprintf("split doc#%d span=%d depth=2", doc, span), map[string]int64{"doc": doc, "span": span, "depth": 2}
				c.RunJob(j)
			}
			if span >= 2 && (thorough || span == 2) {
				j := base
				j.Name, j.Params = fmt.Sprintf("split doc#%d span=%d two directories", doc, span), map[string]int64{"doc": doc, "span": span, "depth": 1, "dirs": 1}
				c.RunJob(j)
			}
		}
	}
	// the repository's own corpus: every run of top-level blocks of a file moves into an included file
	{
		files := corpusFiles()
		nWin := (len(files) + 99) / 100
		rng := rand.New(rand.NewSource(c.Seed + 9))
		wins, maxn := rng.Perm(nWin), int64(6)
		if c.Tier == "thorough" {
			maxn = 8
		}
		sort.Ints(wins)
		split := 0
		for _, w := range wins {
			lo, hi := w*100, w*100+99
			if hi >= len(files) {
				hi = len(files) - 1
			}
			jr := c.RunJob(Job{Name: fmt.Sprintf("corpus files #%d..#%d, every run of blocks included (<= %d blocks)", lo, hi, maxn), Pkg: "core", Fn: "HCorpusSplit",
				Params: map[string]int64{"lo": int64(lo), "hi": int64(hi), "maxn": maxn}, Stubs: []string{"loc", "rune"}, PanicIsViolation: true, MaxPaths: 500000, Timeout: 2 * time.Hour,
				MaxSteps: 100000000, MaxDepth: 2000, Quiet: true})
			split += jr.Stats.Reached["split"]
		}
		if split == 0 {
			c.Inconclusive("vacuity: no corpus document was split")
		}
	}
	return c.Finish("model_checking", []string{
		"corpus family (HCorpusSplit): every file under /repo/testdata that is accepted, has no MACRO / PASTE / INCLUDE line and 1..6 (quick, all files) / 1..8 (thorough, all files) top-level blocks after JSIGHT — cut at the root directives of the implementation's own directive tree, which places the test and does not judge it: every run of consecutive blocks (start and length symbolic) moves into piece.jst, an INCLUDE takes its place: the project is accepted and has the catalog of the single file (deep digest, entry by entry)",
		fmt.Sprintf("relational: 5 skeleton projects (3 accepted, 2 rule-rejected) and 2 documents rejected while a macro body is expanded at its PASTE (the MACRO may end up in the included file) vs the same project with the run of 1..%d consecutive directive blocks starting at a symbolic directive boundary moved into piece.jst and replaced by INCLUDE (depth 2: the piece is cut once more into inner.jst; two directories: the run is cut into inner.jst next to the root and sub/inner.jst included from sub/wrap.jst — two different files written with the same name); symbolic: cut position, LF/CRLF after INCLUDE, tail of the included file (as is / no final line end / extra blank line / comment line where trivia is legal)", maxSpan),
		"oracle: equal catalog digest (every entity, order, names, annotations, descriptions, schema text, emitter-level content) or the same error MESSAGE (whole text), located in the file that now holds the directive at the corresponding index",
		"pieces are cut at directive boundaries only (not inside a directive); JSIGHT stays in the root file; file system = virtual",
		contractLoc, contractRune,
	}, map[string]interface{}{})
}

func propC06(c *Ctx) int {
	thorough := c.Tier == "thorough"
	docs := []int64{0, 1, 2, 3, 4, 5, 6, 7, 8, 9, 10, 11, 12, 13, 14, 16}
	if thorough {
		docs = []int64{0, 1, 2, 3, 4, 5, 6, 7, 8, 9, 10, 11, 12, 13, 14, 15, 16, 17, 18}
	}
	totalSites := 0
	for _, doc := range docs {
		for site := int64(0); site < 40; site++ {
			jr := c.RunJob(Job{Name: fmt.Sprintf("determinism doc#%d map-site=%d", doc, site), Pkg: "core", Fn: "HDeterminism", Params: map[string]int64{"doc": doc, "site": site},
				Stubs: []string{"rune"}, PanicIsViolation: true, MaxPaths: 20000, Timeout: 30 * time.Minute, MaxSteps: 20000000, MaxDepth: 1000, Quiet: true,
				AllowDrops: []string{"on symbolic operand"}})
			if jr.Stats.Reached["no-such-site"] > 0 {
				break
			}
			totalSites++
		}
	}
	c.RunJob(Job{Name: "second build in one process", Pkg: "core", Fn: "HRebuild", Stubs: []string{"loc", "rune"}, PanicIsViolation: true, MaxPaths: 100000, Timeout: 30 * time.Minute,
		MaxSteps: 20000000, MaxDepth: 1000, MustReach: []string{"rebuilt"}})
	static := StaticNondeterminismScan(c)
	return c.Finish("model_checking", []string{
		"dynamic part: each project is built with insertion-ordered maps and built again with ONE range-over-map site (sites numbered in execution order, in the repository and in jsight-schema-core alike) iterating in a symbolic order — a full symbolic permutation (Lehmer code) for maps of <= 4 entries, a symbolic rotation + optional reversal above; every execution of that site uses the same symbolic order; the solver looks for an order that changes accept/reject, message, file, index, include trace or the catalog digest",
		"prior builds (HRebuild): two projects at the SAME paths, differing in the symbolic names written in the root file and in an included file (the first one optionally failing), built one after the other in one process (one interpreter world: package-level variables persist): the second catalog says exactly what the second project says",
		"outside the encoding: builds running CONCURRENTLY (the interpreter is sequential: no goroutine is ever started by the build code of the pinned tree; a go statement, channel operation or a store to a package-level variable outside init appears in the static list below and is not executed symbolically), separate processes, encoding/json",
		fmt.Sprintf("projects: 14 determinism fixtures (a regex type referred to by several schemas — the catalog is compared WITH the examples the emitter writes; known finding F-C06-regex-example-map-order; two faults found by two different final checks; user types in a reference cycle with faults in several members, with and without an ENUM; a Tags directive repeating one of three tags; a path repeating two different parameters; two servers/tags/enums/OperationIds; several enums/types/path variables/allOf; two independent faults; three recursive macros; property overrides; path parameters defined on several levels; a Path schema with two unused properties; two types using undefined types) + layout skeletons; %d (project, site) pairs this run", totalSites),
		"interactions between the orders of two different sites, cross-process effects other than map order, and everything below json.Marshal are outside the claim; a counterexample is confirmed natively by rebuilding the project 200 times (Go randomises map iteration)",
		"static part (evidence.coverage.static_scan): every range-over-map, time / math/rand / os.Getenv call and pointer-to-integer conversion in the repository's packages, from the SSA of the current tree",
		contractRune,
	}, map[string]interface{}{"static_scan": static, "site_pairs": totalSites})
}

func propC05(c *Ctx) int {
	thorough := c.Tier == "thorough"
	base := Job{Pkg: "core", Stubs: []string{"loc", "rune"}, PanicIsViolation: true, MaxPaths: 500000, Timeout: time.Hour, MaxSteps: 8000000, MaxDepth: 1000, Quiet: true,
		AllowDrops: []string{"on symbolic operand"}}
	{
		j := base
		j.Quiet = false
		j.Name, j.Fn, j.MustReach = "tags model", "HTagsModel", []string{"closed", "undeclared"}
		c.RunJob(j)
	}
	{
		j := base
		j.Quiet = false
		j.Name, j.Fn, j.MustReach = "path variables model", "HPathVarsModel", []string{"closed"}
		c.RunJob(j)
	}
	{
		j := base
		j.Quiet = false
		j.Name, j.Fn, j.MustReach = "projects without a directive", "HClosureNoDirective", []string{"rejected"}
		c.RunJob(j)
	}
	{
		j := base
		j.Quiet = false
		j.Name, j.Fn, j.MustReach = "used names model", "HUsedModel", []string{"closed", "undefined-rejected"}
		c.RunJob(j)
	}
	// closure invariants on every accepted document of the hole family
	rng := rand.New(rand.NewSource(c.Seed + 5))
	for doc, L := range HoleDocLens {
		var cuts []int
		if thorough {
			for p := 0; p <= L; p += 2 {
				cuts = append(cuts, p)
			}
		} else {
			for i := 0; i < 14; i++ {
				cuts = append(cuts, rng.Intn(L+1))
			}
		}
		for _, cut := range cuts {
			j := base
			j.Name, j.Fn = fmt.Sprintf("closure hole doc#%d cut=%d", doc, cut), "HClosureHole"
			j.Params = map[string]int64{"doc": int64(doc), "cut": int64(cut), "k": 2, "mode": 1}
			c.RunJob(j)
		}
	}
	// the same invariants on the skeletons rewritten by INCLUDE / PASTE (accepted documents of other families)
	for _, p := range [][3]int64{{0, 2, 1}, {2, 2, 1}, {0, 3, 2}} {
		j := base
		j.Name, j.Fn, j.Params = fmt.Sprintf("closure after split doc#%d span=%d depth=%d", p[0], p[1], p[2]), "HIncludeSplit", map[string]int64{"doc": p[0], "span": p[1], "depth": p[2], "closure": 1}
		c.RunJob(j)
	}
	{
		j := base
		j.Name, j.Fn, j.Params = "closure after paste", "HPasteText", map[string]int64{"closure": 1}
		c.RunJob(j)
	}
	return c.Finish("model_checking", []string{
		"closure invariants (harness/core/zz_verif_c05.go vCheckClosure) asserted on the catalog structs of every ACCEPTED document: interaction key == id == '<protocol> <method> <path>'; every tag named by an interaction exists and lists it exactly once under its protocol, and vice versa; pathVariables present exactly when the path has {parameters}, and its schema has exactly those parameters as properties; response codes 1xx-5xx with a body; JSIGHT version 0.3; every name in the usedUserTypes / usedUserEnums lists the JSON emitter builds for each schema (types, path variables, query, request/response headers and bodies, params, result) is a defined type / enum and occurs once",
		"used names model (HUsedModel): a response body assembled from a symbolic subset of 10 reference forms (property of a type, array of a type, or-rule, enum rule, type union, allOf on a nested object and on the root, key shortcut, type rule, additionalProperties), one symbolically chosen form naming an undefined type/enum: rejected exactly then; otherwise closure, and usedUserTypes = the types the selected forms name (observation, not asserted: the emitter never fills usedUserEnums — no Add call exists in the repository; no property demands it)",
		"document families: projects in which no directive is left (empty, blanks, comments, MACRO definitions only, an INCLUDE of a comment file); path-variable model (Path directives on URL level, method level, on a longer path sharing the prefix, in both orders — all symbolic); TAG/Tags model with symbolic tag choices (up to three names incl. the same tag twice, adjacent or not, and an undeclared tag, URL-level and method-level Tags, HTTP and JSON-RPC); representative documents with a 2-byte symbolic substitution hole (sampled cuts in the quick tier); INCLUDE-split and MACRO/PASTE rewrites of the skeletons",
		"outside: the closure of the names in the serialised bytes is decided under C04 (shape walker: usedUserTypes / usedUserEnums / tags / tag groups name defined entities)",
		contractLoc, contractRune,
	}, map[string]interface{}{})
}

func propC03(c *Ctx) int {
	base := Job{Pkg: "core", Stubs: []string{"rune"}, PanicIsViolation: true, MaxPaths: 100000, Timeout: time.Hour, MaxSteps: 8000000, MaxDepth: 1000}
	{
		j := base
		j.Name, j.Fn, j.MustReach = "fault catalogue x placement x line ends", "HFault", []string{"fault-rejected"}
		c.RunJob(j)
	}
	{
		j := base
		j.Name, j.Fn, j.MustReach = "symbolic names", "HFaultNames", []string{"duplicate-found", "distinct"}
		c.RunJob(j)
	}
	{
		j := base
		j.Name, j.Fn, j.MustReach = "JSIGHT missing / not first / wrong version", "HFaultJsight", []string{"jsight-fault-rejected"}
		c.RunJob(j)
	}
	{
		j := base
		j.Name, j.Fn, j.MustReach = "symbolic path parameter name", "HFaultPathParam", []string{"ambiguous-found", "same-parameter"}
		c.RunJob(j)
	}
	return c.Finish("model_checking", []string{
		"fault catalogue (harness/core/zz_verif_c03.go, 58 classes, each under LF / CRLF / CR line ends of the whole project: duplicate interaction/type/enum/server/tag/macro/OperationId, similar and duplicated path parameters, second Title/Version/Description/Query/Request body/Headers/BaseUrl/Protocol, undefined type/tag/macro, missing required parameter, forbidden annotation, JSIGHT repeated, Type+SchemaNotation, Method without Protocol, request/response with Headers but without a body) injected into a valid document; fault class and placement (root file / INCLUDEd file / pasted MACRO body) are symbolic; oracle: rejected, message of that class, located in the file and on the line of the offending directive (real jerr.NewLocation, no contract stub)",
		"symbolic names: a TYPE/ENUM/SERVER/TAG/MACRO/OperationId/method path with a symbolic two-byte name is appended: rejected as duplicate on that directive exactly when the name equals the existing name of its kind (the solver finds the equal-name case), accepted otherwise",
		"symbolic path parameter: POST /cats/{xy}, URL /cats/{xy} + DELETE, PUT /cats/{xy}/toys with two symbolic letters/digits xy appended to a document with GET /cats/{id}: rejected as an ambiguous path on that directive exactly when xy differs from id in any byte (the solver looks for an accepted differing name), accepted when equal",
		"outside: faults crossed with layouts (C08), rule/example mismatches inside schemas (jsight-schema-core)",
		"JSIGHT missing, not first, without version, with a wrong (symbolic) version: rejected on line 1",
		contractRune,
	}, map[string]interface{}{})
}

func propC02(c *Ctx) int {
	thorough := c.Tier == "thorough"
	base := Job{Pkg: "core", Fn: "HModel", Stubs: []string{"loc", "rune"}, PanicIsViolation: true, MaxPaths: 200000, Timeout: time.Hour, MaxSteps: 8000000, MaxDepth: 1000, Quiet: true}
	rng := rand.New(rand.NewSource(c.Seed + 2))
	jobs1, jobs2, bits1, bits2 := 5, 6, 7, 6
	if thorough {
		jobs1, jobs2, bits1, bits2 = 30, 50, 10, 9
	}
	reached := 0
	mk := func(n int, nfeat int, nbits int) {
		mask := int64(0)
		for _, b := range rng.Perm(nfeat)[:nbits] {
			mask |= 1 << uint(b)
		}
		fixed := rng.Int63n(1 << 50)
		j := base
		j.Name, j.Params = fmt.Sprintf("model n=%d mask=%x fixed=%x", n, mask, fixed), map[string]int64{"n": int64(n), "mask": mask, "fixed": fixed}
		jr := c.RunJob(j)
		reached += jr.Stats.Reached["model-roundtrip"]
	}
	// feature groups: semantically related features symbolic together (two seeded settings of the rest each)
	for g := int64(1); g <= 9; g++ {
		reps := 1
		if thorough {
			reps = 6
		}
		for r := 0; r < reps; r++ {
			j := base
			fixed := rng.Int63n(1 << 55)
			j.Name, j.Params = fmt.Sprintf("model n=2 group=%d fixed=%x", g, fixed), map[string]int64{"n": 2, "mask": 0, "fixed": fixed, "group": g}
			jr := c.RunJob(j)
			reached += jr.Stats.Reached["model-roundtrip"]
		}
	}
	for i := 0; i < jobs1; i++ {
		mk(1, 38, bits1)
	}
	for i := 0; i < jobs2; i++ {
		mk(2, 60, bits2)
	}
	if reached == 0 {
		c.Results[0].Inconclusive = append(c.Results[0].Inconclusive, "vacuity: no model round-trip was reached")
	}
	c.Log("model round-trips reached: %d", reached)
	return c.Finish("model_checking", []string{
		"abstract model (harness/core/zz_verif_c02.go): INFO (title, version, description), up to two SERVERs, TAGs, TYPEs (jsight and regex), ENUMs, an optional JSON-RPC method (Params / Result / Description / Tags variants), 1..2 HTTP interactions (all five methods x path pool, request with Headers and Body in either order, response bodies any / @type / [@type] / inline schema, own Tags / URL-level Tags / path tag, annotation, description, query, request none/any/schema/headers+body, OperationId, Tags or path tag, 1..2 responses in either order with any/@type/inline schema bodies, response headers and annotations), rendered with URL grouping or stand-alone methods, explicit ( ) or implicit contexts, // or /* */ annotations",
		fmt.Sprintf("9 feature groups (tags: declared tags x own (one or two, either order) / URL-level Tags x grouping x paths; entities; responses; request/description/query (none, body, noFormat, example, example+noFormat, htmlFormEncoded); grouping/explicit contexts; second interaction; JSON-RPC x tags; method x path x query x enums; LAYOUT of the rendering x grouping x explicit contexts x annotation style x entities: as rendered / CRLF / CR / comments, blank lines and block comments before top-level directives / definitions moved into an INCLUDEd file in a sub-directory / all interactions moved into a MACRO pasted at root / quoted paths / every line indented by a tab and a blank) are made symbolic together with seeded settings of the rest; in addition each mask job makes %d (1 interaction) / %d (2 interactions) of the ~38/60 feature choices symbolic (seeded selection, the solver explores all their combinations) and fixes the rest (seeded); %d+%d jobs this run; the expected catalog digest — including, for every schema and enum, the content tree / rules / notes / used types that the JSON emitter hands to encoding/json (vDigestDeep) — is computed from the model alone and compared entry by entry (nothing missing, nothing invented, order, attachment to the right interaction/response), followed by the C05 closure invariants", bits1, bits2, jobs1, jobs2),
		"outside: the JSON bytes (decided for the same model-rendered documents under C04 / C16), more than two HTTP interactions + one JSON-RPC method, combinations of more feature choices than the symbolic ones of a job, MACRO/PASTE and INCLUDE renderings (covered relationally by C10/C09), layout variants (C08)",
		contractLoc, contractRune,
	}, map[string]interface{}{"model_roundtrips": reached})
}


func propC15(c *Ctx) int {
	n := int64(6)
	if c.Tier == "thorough" {
		n = 7
	}
	c.RunJob(Job{Name: fmt.Sprintf("permutation of %d top-level blocks", n), Pkg: "core", Fn: "HPermute", Params: map[string]int64{"n": n},
		Stubs: []string{"rune"}, PanicIsViolation: true, MaxPaths: 100000, Timeout: 2 * time.Hour, MaxSteps: 20000000, MaxDepth: 1000, MustReach: []string{"permuted"}})
	c.RunJob(Job{Name: fmt.Sprintf("permutation of %d blocks with symbolic references", n-1), Pkg: "core", Fn: "HPermute", Params: map[string]int64{"n": n - 1, "edges": 1, "rpc": 1},
		Stubs: []string{"rune"}, PanicIsViolation: true, MaxPaths: 200000, Timeout: 2 * time.Hour, MaxSteps: 20000000, MaxDepth: 1000, MustReach: []string{"permuted"}})
	c.RunJob(Job{Name: "permutation with tags", Pkg: "core", Fn: "HPermute", Params: map[string]int64{"family": 1},
		Stubs: []string{"rune"}, PanicIsViolation: true, MaxPaths: 100000, Timeout: time.Hour, MaxSteps: 20000000, MaxDepth: 1000, MustReach: []string{"permuted"}})
	// the repository's own corpus: every file without MACRO / PASTE / INCLUDE and with 2..maxn top-level blocks, all orders
	{
		files := corpusFiles()
		nWin := (len(files) + 99) / 100
		rng := rand.New(rand.NewSource(c.Seed + 15))
		wins, maxn := rng.Perm(nWin), int64(4)
		if c.Tier == "thorough" {
			maxn = 5
		}
		sort.Ints(wins)
		permuted := 0
		for _, w := range wins {
			lo, hi := w*100, w*100+99
			if hi >= len(files) {
				hi = len(files) - 1
			}
			jr := c.RunJob(Job{Name: fmt.Sprintf("corpus files #%d..#%d, blocks in every order (<= %d blocks)", lo, hi, maxn), Pkg: "core", Fn: "HCorpusPermute",
				Params: map[string]int64{"lo": int64(lo), "hi": int64(hi), "maxn": maxn}, Stubs: []string{"loc", "rune"}, PanicIsViolation: true, MaxPaths: 500000, Timeout: 2 * time.Hour,
				MaxSteps: 100000000, MaxDepth: 2000, Quiet: true})
			permuted += jr.Stats.Reached["permuted"]
		}
		if permuted == 0 {
			c.Inconclusive("vacuity: no corpus document was permuted")
		}
	}
	return c.Finish("model_checking", []string{
		"corpus family (HCorpusPermute): every file under /repo/testdata that is accepted, has no MACRO / PASTE / INCLUDE line and has 2..4 (quick, all files) / 2..5 (thorough, all files) top-level blocks after JSIGHT — the root directives of the implementation's own directive tree give the cut positions (used to place the test, not to judge it) — built as written and with its blocks in a symbolic permutation (Lehmer code: every order): the permuted document is accepted and has the same entities with the same content (deep digest as multisets)",
		"tags family: methods with and without Tags, a declared TAG used before / after its block, optionally a Tags directive naming the path tag of another method, optionally a TAG declared with the name of a path tag (5 blocks, all orders, 4 variants): the verdict and the error class do not depend on the order; if accepted, the same entities",
		"generated examples are not part of the comparison here: for schemas that refer to a regex type they are not even stable from run to run (C06, known finding F-C06-regex-example-map-order)",
		fmt.Sprintf("one accepted document of %d independent top-level blocks after JSIGHT (TAG with description; TYPE @a referring to @b and to an ENUM; TYPE @b referring back to @a and carrying a rule; ENUM with notes; URL block with two methods, Tags and type references; stand-alone method with a path parameter, request headers + body and an array-of-type response; quick: + nothing, thorough: + SERVER) built as written and in a symbolic permutation (Lehmer code: all %d! orders); second job: one block fewer, and which block refers to which is symbolic as well (@a -> @b, @b -> @a — both: a cycle —, @a -> ENUM, the stand-alone method -> @a / @b: 16 reference structures x all orders; the TAG block is replaced by a JSON-RPC method whose Params inherit from @b through allOf and whose Result is [@a])", n, n),
		"oracle: both accepted; the deep digests (every entity with names, annotations, descriptions, schema text and the emitter-level content tree / rules / used types of every schema and enum) are equal as multisets of entities; types and interactions appear in the text order of the permuted document",
		"outside: INFO among the permuted blocks (quick tier), MACRO/PASTE/INCLUDE blocks (their order sensitivity is C09/C10's subject), more than one document, the JSON bytes",
		contractRune,
	}, map[string]interface{}{})
}


func propC16(c *Ctx) int {
	c.RunJob(Job{Name: "the five accessors in a symbolic sequence (bytes)", Pkg: "core", Fn: "HRepeatBytes", Stubs: []string{"rune"}, PanicIsViolation: true, MaxPaths: 100000, Timeout: time.Hour,
		MaxSteps: 50000000, MaxDepth: 1000, MustReach: []string{"repeatable"}})
	// the repeated calls under one range-over-map site iterating in a symbolic order
	for doc := int64(0); doc < 5; doc++ {
		for site := int64(0); site < 40; site++ {
			jr := c.RunJob(Job{Name: fmt.Sprintf("the five accessors repeated, doc#%d map-site=%d", doc, site), Pkg: "core", Fn: "HRepeatBytes", Params: map[string]int64{"site": site, "docp": doc},
				Stubs: []string{"rune"}, PanicIsViolation: true, MaxPaths: 100000, Timeout: time.Hour, MaxSteps: 50000000, MaxDepth: 1000, Quiet: true})
			if jr.Stats.Reached["no-such-site"] > 0 {
				break
			}
		}
	}
	c.RunJob(Job{Name: "serialisation after earlier calls", Pkg: "core", Fn: "HRepeat", Stubs: []string{"rune"}, PanicIsViolation: true, MaxPaths: 100000, Timeout: time.Hour,
		MaxSteps: 20000000, MaxDepth: 1000, MustReach: []string{"repeatable"}})
	// the same on the model-rendered documents of C02 (regex type, enums, JSON-RPC, layouts): second serialisation == first
	reps := 1
	if c.Tier == "thorough" {
		reps = 4
	}
	rng := rand.New(rand.NewSource(c.Seed + 16))
	for _, g := range []int64{2, 3, 7} {
		for r := 0; r < reps; r++ {
			fixed := rng.Int63n(1 << 55)
			c.RunJob(Job{Name: fmt.Sprintf("model n=2 group=%d fixed=%x serialised twice", g, fixed), Pkg: "core", Fn: "HModel",
				Params: map[string]int64{"n": 2, "mask": 0, "fixed": fixed, "group": g, "repeat": 1},
				Stubs: []string{"rune"}, PanicIsViolation: true, MaxPaths: 200000, Timeout: time.Hour, MaxSteps: 20000000, MaxDepth: 1000, Quiet: true, MustReach: []string{"model-roundtrip"}})
		}
	}
	// the repository's own corpus: the five accessors three times round on every accepted file, and on mutated files
	if c.Tier == "thorough" {
		corpusJobs(c, 16, -1, 300, 116)
	} else {
		corpusJobs(c, 16, -1, 15, 116)
	}
	return c.Finish("model_checking", []string{
		corpusNote + " — here: the five accessors called three times round on every accepted document, each returning the bytes of its first call",
		"bytes (HRepeatBytes): ToJson, ToJsonIndent, ToOpenAPIJson, ToOpenAPIJsonIndent and Title of one built catalog called in a symbolic sequence of four calls and then twice each: every accessor returns the bytes of its first call — also when the repeated calls run with ONE range-over-map site iterating in a symbolic order (all sites in turn), so that a serialiser that walks a Go map cannot rely on the engine's insertion order; the REAL serialisers run in the engine, encoding/json being modelled over interpreter values (symgo/json.go: struct tags, omitempty, embedded structs, sorted map keys, Marshaler / TextMarshaler methods called through the interpreter, HTML-safe escaping, compaction) — a model validated by `vcheck SELFTEST`: byte-identical ToJson, ToJsonIndent and OpenAPI JSON for all 1108 corpus files, and by the native replay of every path of this job",
		"emitter level: what ToJson / ToJsonIndent hand to encoding/json — for every entity its names, ids, annotations, descriptions, parameters, and for every schema and enum the content tree, rules, notes, used types/enums and the EXAMPLE, each obtained the way the MarshalJSON methods obtain it (harness/catalog/zz_verif_deep.go VSchemaEmit, overlaid into package catalog) — after a symbolic sequence of up to three earlier calls (serialise / Title) equals what the first serialisation of a fresh catalog of the same project hands over; 3 fixture projects (regex user type referred to by jsight types, regex bodies, allOf, enums, path variables, query, JSON-RPC) and model-rendered documents of C02 serialised twice",
		"outside: calls from several goroutines (C18); call sequences on corpus documents other than three rounds in the fixed order (the symbolic sequences run on the 4 fixture documents)",
		"the regex example generator (github.com/lucasjones/reggen) runs natively inside the engine on the concrete pattern, one stateful generator per schema object as in the real run",
		contractRune,
	}, map[string]interface{}{})
}


func propC04(c *Ctx) int {
	thorough := c.Tier == "thorough"
	base := Job{Pkg: "core", Fn: "HEmitHole", Stubs: []string{"loc", "rune"}, PanicIsViolation: true, MaxPaths: 500000, Timeout: time.Hour, MaxSteps: 8000000, MaxDepth: 1000, Quiet: true,
		AllowDrops: []string{"on symbolic operand"}}
	rng := rand.New(rand.NewSource(c.Seed + 4))
	emitted := 0
	for doc, L := range HoleDocLens {
		var cuts []int
		if thorough {
			for p := 0; p <= L; p++ {
				cuts = append(cuts, p)
			}
		} else {
			n := 10
			if doc == 4 {
				n = 40 // the schema document: most of the emitter's code is about schemas
			}
			for i := 0; i < n; i++ {
				cuts = append(cuts, rng.Intn(L+1))
			}
		}
		for _, cut := range cuts {
			j := base
			j.Name, j.Params = fmt.Sprintf("emit hole doc#%d cut=%d +2B", doc, cut), map[string]int64{"doc": int64(doc), "cut": int64(cut), "k": 2}
			jr := c.RunJob(j)
			emitted += jr.Stats.Reached["emitted"]
		}
	}
	{
		jr := c.RunJob(Job{Name: "reference matrix emitted", Pkg: "core", Fn: "HRefMatrix", Params: map[string]int64{"emitOnly": 1}, Stubs: []string{"rune"}, PanicIsViolation: true, MaxPaths: 100000, Timeout: time.Hour,
			MaxSteps: 3000000, MaxDepth: 400, MustReach: []string{"accepted"}})
		emitted += jr.Stats.Reached["accepted"]
	}
	{
		jr := c.RunJob(Job{Name: "late-checked bodies and rules emitted", Pkg: "core", Fn: "HEmitCases", Stubs: []string{"rune"}, PanicIsViolation: true, MaxPaths: 100000, Timeout: time.Hour,
			MaxSteps: 3000000, MaxDepth: 400, MustReach: []string{"accepted", "rejected"}})
		emitted += jr.Stats.Reached["accepted"]
	}
	{
		jr := c.RunJob(Job{Name: "schema matrix emitted", Pkg: "core", Fn: "HSchemaMatrix", Stubs: []string{"rune"}, PanicIsViolation: true, MaxPaths: 100000, Timeout: time.Hour,
			MaxSteps: 8000000, MaxDepth: 1000, MustReach: []string{"accepted", "accepted-as-type"}})
		emitted += jr.Stats.Reached["accepted"]
	}
	if thorough {
		emitted += corpusJobs(c, 4, -1, 600, 104)
	} else {
		emitted += corpusJobs(c, 4, -1, 30, 104)
	}
	if emitted == 0 {
		c.Inconclusive("vacuity: no accepted document was emitted")
	}
	// the model-rendered documents of C02: every emitter step succeeds, nodes typed consistently (asserted through vEmit in the repeat mode)
	for _, g := range []int64{2, 3, 4, 7} {
		fixed := rng.Int63n(1 << 55)
		c.RunJob(Job{Name: fmt.Sprintf("model n=2 group=%d fixed=%x emitted", g, fixed), Pkg: "core", Fn: "HModel",
			Params: map[string]int64{"n": 2, "mask": 0, "fixed": fixed, "group": g, "repeat": 1},
			Stubs: []string{"rune"}, PanicIsViolation: true, MaxPaths: 200000, Timeout: time.Hour, MaxSteps: 20000000, MaxDepth: 1000, Quiet: true, MustReach: []string{"model-roundtrip"}})
	}
	return c.Finish("model_checking", []string{
		"emitter level: for every ACCEPTED document of the hole family (5 representative documents — one of them made of schema constructs: enum rule, regex type, min, allOf, or, forward type reference, arrays, Path, Query — with 2 symbolic bytes substituted at a cut; sampled cuts in the quick tier, every cut in the thorough tier) every step ToJson performs before it calls encoding/json succeeds (emitter-side compilation of each schema: content tree, allOf inheritance, used names; example generation; pseudo-schema notations) and every content node is typed consistently (containers: children, no scalar value; others: a scalar value, no children); the same on model-rendered documents of C02",
		"late-checked bodies and rules (HEmitCases): regex bodies with 12 patterns (valid and invalid) in a response, a request, Body directives and a user type used as Path property; Path bodies whose rule disagrees with the example or names an undefined type / enum; an empty ENUM; types in empty / any notation; same-code responses — symbolic choices: whatever the verdict of the build, an accepted document serialises",
		"reference matrix (HRefMatrix, see C01): for every ACCEPTED combination of a place that names a user type and a notation of that type the emitter steps succeed",
		"bytes (vCheckJSON, on every accepted document of these families): ToJson and ToJsonIndent succeed, are valid UTF-8 JSON (encoding/json.Valid on the produced bytes), agree up to whitespace (Compact(indent) == compact), start with tags, contain interactions and end with jsight 0.3 / jdocExchangeVersion 2.0.0; every interaction appears under its key with id and protocol, every tag with name and title and an interactionGroups array, every response with a body object, every user type / enum / server under its name; encoding/json is modelled over interpreter values (symgo/json.go; byte-identical with the native serialisers on all 1108 corpus files, `vcheck SELFTEST`)",
		"shape (vShape, harness/core/zz_verif_shape.go — on the PARSED bytes of both forms; a JSON reader in plain Go runs in the engine and natively): the fixed top-level keys in their order; info / servers / userTypes / userEnums / tags / interactions with their required fields and no others; ids equal to their keys and to 'protocol method path'; every tag an interaction names, every interaction a tag group lists (with the group's protocol), every usedUserTypes / usedUserEnums entry defined in the document and listed once; every schema with its notation and the members that notation has; every content node typed consistently (object / array: children array and no scalarValue; others: a string scalarValue and no children; object members keyed; optional a boolean; rules a filled array of well-formed rules); every entity of the catalog present in the bytes and no interaction invented",
		"schema matrix (HSchemaMatrix): 74 fragments of the schema language x 11 places a schema value can stand (see C01): every accepted combination serialises with that shape",
		corpusNote,
		"outside: hole documents whose substituted bytes reach a serialised string are decided at emitter level only (declared drop 'json string on symbolic operand')",
		contractLoc, contractRune,
	}, map[string]interface{}{"accepted_documents_emitted": emitted})
}


// C17DocLens: byte lengths of vC17Docs (harness/kit/zz_verif_c17.go).
var C17DocLens = []int{661, 130}

func propC17(c *Ctx) int {
	thorough := c.Tier == "thorough"
	base := Job{Pkg: "kit", Fn: "HOpenAPI", Stubs: []string{"loc", "rune"}, PanicIsViolation: true, MaxPaths: 500000, Timeout: time.Hour, MaxSteps: 20000000, MaxDepth: 1000, Quiet: true,
		AllowDrops: []string{"on symbolic operand"}}
	rng := rand.New(rand.NewSource(c.Seed + 17))
	exported := 0
	for doc, L := range C17DocLens {
		var cuts []int
		if thorough {
			for p := 0; p <= L; p++ {
				cuts = append(cuts, p)
			}
		} else {
			n := 50
			if doc == 1 {
				n = 15
			}
			for i := 0; i < n; i++ {
				cuts = append(cuts, rng.Intn(L+1))
			}
			cuts = append(cuts, L) // the document itself
		}
		for _, cut := range cuts {
			j := base
			j.Name, j.Params = fmt.Sprintf("openapi hole doc#%d cut=%d +2B", doc, cut), map[string]int64{"doc": int64(doc), "cut": int64(cut), "k": 2}
			jr := c.RunJob(j)
			exported += jr.Stats.Reached["exported"]
		}
	}
	for _, fn := range []string{"HRefMatrix", "HEmitCases"} {
		jr := c.RunJob(Job{Name: fn + " exported", Pkg: "core", Fn: fn, Params: map[string]int64{"export": 1, "emitOnly": 1}, Stubs: []string{"rune"}, PanicIsViolation: true, MaxPaths: 100000, Timeout: time.Hour,
			MaxSteps: 3000000, MaxDepth: 400, MustReach: []string{"accepted"}})
		exported += jr.Stats.Reached["accepted"]
	}
	{
		jr := c.RunJob(Job{Name: "schema matrix exported", Pkg: "core", Fn: "HSchemaMatrix", Params: map[string]int64{"export": 1}, Stubs: []string{"rune"}, PanicIsViolation: true, MaxPaths: 100000, Timeout: time.Hour,
			MaxSteps: 8000000, MaxDepth: 1000, MustReach: []string{"accepted", "accepted-as-type"}})
		exported += jr.Stats.Reached["accepted"]
	}
	if thorough {
		exported += corpusJobs(c, 17, -1, 600, 117)
	} else {
		exported += corpusJobs(c, 17, -1, 30, 117)
	}
	if exported == 0 {
		c.Inconclusive("vacuity: no accepted document was exported")
	}
	return c.Finish("model_checking", []string{
		"structure level: for every ACCEPTED document of the hole family (an HTTP kitchen sink — URL grouping, path variables with and without a Path directive, query, request headers/body, several responses incl. regex and headers+body, tags, OperationId, types with enum/min/allOf/or rules, a regex type — and a JSON-RPC + HTTP document; 2 symbolic bytes substituted at a cut; sampled cuts in the quick tier, every cut in the thorough tier) openapi.NewOpenAPI — everything ToOpenAPIJson does before it calls encoding/json, incl. jsight-schema-core/openapi from its SSA — does not panic and returns an error value or a structure with openapi 3.0.3, info and paths in which every HTTP interaction is paths[path][method], its responses are there under keys that are status codes or 'default', every {parameter} of the path is a required path parameter (with a schema) of the path item, and every user type is a component",
		"the reference matrix (18 places x 9 notations of a user type) and the late-checked bodies and rules (HEmitCases) of C01/C04: every accepted combination is exported too — an error value or a document with version, info and paths, never a panic",
		"bytes: ToOpenAPIJson and ToOpenAPIJsonIndent of every exported document succeed, are valid JSON, agree up to whitespace, start with openapi 3.0.3 and info, and every \"$ref\": \"#/components/schemas/X\" in the bytes names a user type that is a key of components.schemas (encoding/json modelled over interpreter values, symgo/json.go; jsight-schema-core/openapi's own MarshalJSON methods run through the interpreter)",
		"shape on the PARSED bytes (vOpenAPIShape, harness/json.go.tmpl): openapi 3.0.3, info with title and version, paths; every path key starts with '/', every path item holds only operations / parameters / summary / description / servers and at least one operation; every operation has a non-empty responses object whose keys are status codes or 'default' and whose entries carry a description; parameters are named, located (path / query / header / cookie), declared once and carry a schema; every {parameter} of a path key is a required path parameter of the path item or the operation; EVERY \"$ref\" anywhere in the document is #/components/schemas/<a key of components.schemas>; every user type of the catalog is a component; every HTTP interaction of the catalog is paths[path][method] with all its response codes",
		"schema matrix (HSchemaMatrix): 74 fragments of the schema language x 11 places (see C01): every accepted combination is exported as an error value or a sound document, never a panic",
		corpusNote,
		"outside: OpenAPI-schema validity of the converted schema objects; a content map under requestBody (the repository's snapshots omit it for `Request empty`; the property does not state it)",
		contractLoc, contractRune,
	}, map[string]interface{}{"accepted_documents_exported": exported})
}
