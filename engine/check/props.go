package check

import (
	"fmt"
	"time"
)

// PropFn runs all jobs of a property for a tier and returns the exit code.
type PropFn func(c *Ctx) int

var Props = map[string]PropFn{
	"C13": propC13,
	"C01": propC01,
}

func propC01(c *Ctx) int {
	maxN := 4
	if c.Tier == "thorough" {
		maxN = 6
	}
	for n := 0; n <= maxN; n++ {
		c.RunJob(Job{Name: fmt.Sprintf("scanproject n=%d", n), Pkg: "core", Fn: "HScanProject",
			Params: map[string]int64{"n": int64(n)}, Stubs: []string{"loc", "rune"},
			PanicIsViolation: true, MaxPaths: 3000000, Timeout: 40 * time.Minute, MaxSteps: 200000, ReplayCap: 60000})
	}
	return c.Finish("model_checking", []string{
		"bound: root file of <= N arbitrary bytes (quick N=4, thorough N=6), all 256 values per byte",
		contractLoc, contractRune,
	}, map[string]interface{}{})
}

const contractLoc = "jerr.NewLocation replaced by its contract (panics iff file nil / content empty / index > len; Line, Column, Quote opaque) — the contract itself is decided by check C07"
const contractRune = "bytes.Bytes.DecodeRune (used only to render the offending character into error text) evaluated on the concrete witness; error message text after the constant prefix is outside the claim"

func propC13(c *Ctx) int {
	maxCtx := 0
	if c.Tier == "thorough" {
		maxCtx = 9
	}
	var must []string
	for _, kw := range []string{"JSIGHT", "INFO", "Title", "Version", "Description", "SERVER", "BaseUrl", "URL", "GET", "POST", "PUT", "PATCH", "DELETE", "Body", "Request", "Path", "Headers", "Query", "TYPE", "ENUM", "MACRO", "PASTE", "INCLUDE", "Protocol", "Method", "Params", "Result", "TAG", "Tags", "OperationId", "HTTP-response-code"} {
		must = append(must, "kw:"+kw)
	}
	for ctx := 0; ctx <= maxCtx; ctx++ {
		for n := 1; n <= 13; n++ {
			j := Job{Name: fmt.Sprintf("keyword ctx=%d n=%d", ctx, n), Pkg: "scanner", Fn: "HKeyword",
				Params: map[string]int64{"n": int64(n), "ctx": int64(ctx)}, Stubs: []string{"loc", "rune"},
				PanicIsViolation: true, MaxPaths: 200000, Timeout: 20 * time.Minute}
			if n == 13 {
				j.MustReach = append(append([]string{}, must...), "reject", "terminated", "bad-terminator")
			}
			if ctx > 0 && n != 4 && n != 8 && n != 13 {
				continue // other contexts: three lengths (all keywords complete at 13)
			}
			c.RunJob(j)
		}
	}
	return c.Finish("model_checking", []string{
		"bound: directive-start position followed by at most 13 arbitrary bytes (all 256 values each); the scanner input ends after the deciding byte (first deviating byte / keyword terminator)",
		"start contexts: quick = file start; thorough = 10 listed concrete prefixes (harness/scanner/zz_verif_c13.go)",
		"specification = frozen keyword list harness/scanner/zz_verif_spec.go (30 keywords + [1-5][0-9][0-9])",
		contractLoc, contractRune,
		"strconv.Atoi, strings.HasPrefix, sync.Once modelled/interpreted as listed in DESIGN.md §2.5",
	}, map[string]interface{}{"bounds": "n<=13 bytes after the directive start; all byte values"})
}
