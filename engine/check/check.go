// Package check: per-property check driver — runs harness jobs through the
// symbolic engine, replays witnesses natively, matches known findings, writes
// evidence.
package check

import (
	"crypto/sha256"
	"encoding/json"
	"fmt"
	"go/types"
	"os"
	"os/exec"
	"path/filepath"
	"sort"
	"strings"
	"sync"
	"time"

	"golang.org/x/tools/go/ssa"

	"verif/sym"
	"verif/symgo"
)

const RepoDir = "/repo"

// VerifDir is /verif unless $VERIF_DIR points to a snapshot of it (background runs).
var (
	VerifDir   = envOr("VERIF_DIR", "/verif")
	HarnessDir = VerifDir + "/harness"
	ShimDir    = VerifDir + "/engine/shim"
)

func envOr(k, d string) string {
	if v := os.Getenv(k); v != "" {
		return v
	}
	return d
}

// Job is one harness exploration.
type Job struct {
	Name     string
	Pkg      string // relative package, e.g. "scanner"
	Fn       string
	Params   map[string]int64
	Stubs    []string
	MaxSteps int
	MaxDepth int
	Nondet   bool
	// PanicIsViolation: a panic / budget overrun on a path violates the property
	// (otherwise such paths are only counted as "aborted").
	PanicIsViolation bool
	// MustReach: vReach ids that some path must hit (vacuity guard).
	MustReach []string
	// MaxPaths guards the budget (exceeding it makes the job inconclusive).
	MaxPaths int
	// ReplayCap: max number of path witnesses replayed natively (0 = all).
	ReplayCap int
	Timeout   time.Duration
	Quiet     bool // do not log a line per job
	// AllowDrops: substrings of explicit-drop reasons that are part of the stated
	// bound (e.g. "on symbolic operand": regex/date/e-mail literals inside schema
	// bodies are only followed on concrete values); such paths are counted as
	// excluded, not as inconclusive.
	AllowDrops []string
}

// Candidate is a potential violation found by the engine.
type Candidate struct {
	Job      string            `json:"job"`
	Pkg      string            `json:"pkg"`
	Harness  string            `json:"harness"`
	Params   map[string]int64  `json:"params"`
	Inputs   map[string]uint64 `json:"inputs"`
	Status   string            `json:"status"`
	Msg      string            `json:"msg"`
	Site     string            `json:"site"`
	AssertID string            `json:"assert_id,omitempty"`
	Stack    []string          `json:"stack,omitempty"`
	Obs      []string          `json:"obs,omitempty"`
	Witness  string            `json:"witness,omitempty"` // rendered input bytes
	Property string            `json:"property"`
	// filled by replay
	NativeStatus string   `json:"native_status,omitempty"`
	NativeMsg    string   `json:"native_msg,omitempty"`
	NativeObs    []string `json:"native_obs,omitempty"`
	Confirmed    bool     `json:"confirmed"`
}

func (c *Candidate) Key() string {
	if c.Status == "assert-fail" {
		return c.Job + "|assert|" + c.AssertID
	}
	return c.Job + "|" + c.Status + "|" + c.Site + "|" + firstLine(c.Msg)
}

func firstLine(s string) string {
	if i := strings.IndexByte(s, '\n'); i >= 0 {
		return s[:i]
	}
	return s
}

type pathRec struct {
	Inputs map[string]uint64
	Status string
	Msg    string
	Obs    []string
}

// JobResult aggregates one job.
type JobResult struct {
	Job          Job
	Stats        symgo.ExploreStats
	Candidates   []*Candidate
	CandCount    map[string]int
	Paths        []pathRec // witnesses kept for native replay
	Validated    int
	Mismatches   []string
	Aborted      int
	Excluded     int
	ExcludedWhy  []string
	Inconclusive []string
	Samples      []map[string]interface{}
}

// Ctx is a loaded program plus accumulated results.
type Ctx struct {
	Property          string
	Tier              string
	Seed              int64
	L                 *symgo.Loaded
	Results           []*JobResult
	t0                time.Time
	testBins          map[string]string
	tmp               string
	mu                sync.Mutex
	Log               func(format string, a ...interface{})
	extraInconclusive []string
}

// Inconclusive records a reason why the whole run decides nothing (e.g. vacuity across jobs).
func (c *Ctx) Inconclusive(reason string) { c.extraInconclusive = append(c.extraInconclusive, reason) }

func NewCtx(property, tier string, seed int64) (*Ctx, error) {
	c := &Ctx{Property: property, Tier: tier, Seed: seed, t0: time.Now(), testBins: map[string]string{}}
	c.Log = func(format string, a ...interface{}) {
		fmt.Fprintf(os.Stderr, "[%s %6.1fs] %s\n", property, time.Since(c.t0).Seconds(), fmt.Sprintf(format, a...))
	}
	l, err := symgo.Load(symgo.LoadOpts{RepoDir: RepoDir, ShimDir: ShimDir, HarnessDir: HarnessDir})
	if err != nil {
		return nil, err
	}
	c.L = l
	tmp, err := os.MkdirTemp("", "vcheck-"+property+"-")
	if err != nil {
		return nil, err
	}
	c.tmp = tmp
	c.Log("loaded /repo working tree + harness overlay (%d packages)", len(l.Pkgs))
	return c, nil
}

func (c *Ctx) Close() {
	if c.tmp != "" {
		os.RemoveAll(c.tmp)
	}
}

func stubTable(names []string) map[string]symgo.ExtFn {
	m := map[string]symgo.ExtFn{}
	for _, n := range names {
		switch n {
		case "loc":
			m[symgo.FnNewLocation] = symgo.StubNewLocation
		case "rune":
			m[symgo.FnDecodeRune] = symgo.StubDecodeRune
		default:
			if f, ok := symgo.NamedStubs[n]; ok {
				for k, v := range f {
					m[k] = v
				}
			} else {
				panic("unknown stub " + n)
			}
		}
	}
	return m
}

func renderWitness(inputs map[string]uint64, order []string) string {
	// group NAME_i byte arrays
	groups := map[string]map[int]byte{}
	var scalars []string
	for _, n := range order {
		if i := strings.LastIndexByte(n, '_'); i > 0 {
			var idx int
			if _, err := fmt.Sscanf(n[i+1:], "%d", &idx); err == nil {
				g := n[:i]
				if groups[g] == nil {
					groups[g] = map[int]byte{}
				}
				groups[g][idx] = byte(inputs[n])
				continue
			}
		}
		scalars = append(scalars, fmt.Sprintf("%s=%d", n, int64(inputs[n])))
	}
	var parts []string
	gn := make([]string, 0, len(groups))
	for g := range groups {
		gn = append(gn, g)
	}
	sort.Strings(gn)
	for _, g := range gn {
		m := groups[g]
		max := -1
		for i := range m {
			if i > max {
				max = i
			}
		}
		b := make([]byte, max+1)
		for i, v := range m {
			b[i] = v
		}
		parts = append(parts, fmt.Sprintf("%s=%q", g, string(b)))
	}
	parts = append(parts, scalars...)
	return strings.Join(parts, " ")
}

// RunJob explores one job.
func (c *Ctx) RunJob(j Job) *JobResult {
	jr := &JobResult{Job: j, CandCount: map[string]int{}}
	c.Results = append(c.Results, jr)
	fn := c.L.Func(symgo.RepoModule+"/"+j.Pkg, j.Fn)
	if fn == nil {
		jr.Inconclusive = append(jr.Inconclusive, "harness function not found: "+j.Pkg+"."+j.Fn)
		return jr
	}
	cfg := &symgo.Config{MaxSteps: j.MaxSteps, MaxDepth: j.MaxDepth, Params: j.Params, Stubs: stubTable(j.Stubs), NondetMapOrder: j.Nondet, Summaries: symgo.DefaultSummaries}
	if cfg.MaxSteps == 0 {
		cfg.MaxSteps = 400000
	}
	if cfg.MaxDepth == 0 {
		cfg.MaxDepth = 200
	}
	ex := &symgo.Explorer{W: c.L.World, Fn: fn, Cfg: cfg, Workers: 16, Solver: sym.Z3New, MaxPaths: j.MaxPaths, SampleEvery: 50}
	if j.Timeout > 0 {
		ex.Deadline = time.Now().Add(j.Timeout)
	}
	nsample := 0
	ex.OnPath = func(r *symgo.RunResult) {
		st := r.Status.String()
		isCand := false
		switch r.Status {
		case symgo.StAssertFail:
			isCand = true
		case symgo.StPanic, symgo.StBudget:
			if j.PanicIsViolation {
				isCand = true
			} else {
				jr.Aborted++
			}
		}
		if isCand {
			cand := &Candidate{Job: j.Name, Pkg: j.Pkg, Harness: j.Fn, Params: j.Params, Inputs: r.Inputs, Status: st, Msg: r.Msg, Site: r.Site, AssertID: r.AssertID, Stack: r.Stack, Obs: r.Obs, Property: c.Property, Witness: renderWitness(r.Inputs, r.VarOrder)}
			k := cand.Key()
			jr.CandCount[k]++
			if jr.CandCount[k] <= 3 {
				jr.Candidates = append(jr.Candidates, cand)
			}
		}
		if r.Status == symgo.StOK || r.Status == symgo.StPanic || r.Status == symgo.StAssertFail {
			if j.ReplayCap == 0 || len(jr.Paths) < j.ReplayCap {
				jr.Paths = append(jr.Paths, pathRec{Inputs: r.Inputs, Status: st, Msg: r.Msg, Obs: r.Obs})
			}
		}
		if nsample < 6 && (nsample < 3 || r.Status != symgo.StOK) {
			nsample++
			jr.Samples = append(jr.Samples, map[string]interface{}{"job": j.Name, "witness": renderWitness(r.Inputs, r.VarOrder), "outcome": st, "msg": firstLine(r.Msg), "obs": r.Obs, "branch_records": len(r.Trace)})
		}
	}
	if err := ex.Explore(nil); err != nil {
		jr.Inconclusive = append(jr.Inconclusive, "explore: "+err.Error())
	}
	jr.Stats = ex.Stats
	if ex.Stats.Dropped > 0 {
		for k, n := range ex.Stats.DropReasons {
			allowed := false
			for _, a := range j.AllowDrops {
				if strings.Contains(k, a) {
					allowed = true
				}
			}
			if allowed {
				jr.Excluded += n
				jr.ExcludedWhy = append(jr.ExcludedWhy, fmt.Sprintf("%d x %s", n, k))
			} else {
				jr.Inconclusive = append(jr.Inconclusive, fmt.Sprintf("%d x %s", n, k))
			}
		}
	}
	if ex.Stats.Incomplete {
		jr.Inconclusive = append(jr.Inconclusive, "path/time budget exhausted before the search finished")
	}
	for _, id := range j.MustReach {
		if ex.Stats.Reached[id] == 0 {
			jr.Inconclusive = append(jr.Inconclusive, "vacuity: reach witness "+id+" never hit")
		}
	}
	if !j.Quiet {
		c.Log("job %-28s %s", j.Name, firstLine(ex.Stats.Summary()))
	}
	return jr
}

// ---------- native replay ----------

type nativeCase struct {
	Harness string            `json:"harness"`
	In      map[string]uint64 `json:"in"`
}

type nativeResult struct {
	Status  string   `json:"status"`
	Msg     string   `json:"msg"`
	Obs     []string `json:"obs"`
	Reached []string `json:"reached"`
}

func overlayJSON(dir string) (string, error) {
	ov, err := symgo.BuildOverlay(symgo.LoadOpts{RepoDir: RepoDir, HarnessDir: HarnessDir})
	if err != nil {
		return "", err
	}
	rep := map[string]string{}
	for k := range ov {
		rel, _ := filepath.Rel(RepoDir, k)
		rep[k] = filepath.Join(HarnessDir, rel)
	}
	b, _ := json.Marshal(map[string]interface{}{"Replace": rep})
	p := filepath.Join(dir, "overlay.json")
	return p, os.WriteFile(p, b, 0o644)
}

func goEnv() []string {
	return append(os.Environ(), "GOFLAGS=-mod=mod", "GOPROXY=off", "GOSUMDB=off", "GOTOOLCHAIN=local", "GOWORK=off")
}

// testBinary builds (once) the native test binary of a harness package from /repo's working tree.
func (c *Ctx) testBinary(pkg string) (string, error) {
	c.mu.Lock()
	defer c.mu.Unlock()
	if b, ok := c.testBins[pkg]; ok {
		return b, nil
	}
	ov, err := overlayJSON(c.tmp)
	if err != nil {
		return "", err
	}
	bin := filepath.Join(c.tmp, strings.ReplaceAll(pkg, "/", "_")+".test")
	cmd := exec.Command("go", "test", "-c", "-vet=off", "-overlay", ov, "-o", bin, "./"+pkg)
	cmd.Dir = RepoDir
	cmd.Env = goEnv()
	out, err := cmd.CombinedOutput()
	if err != nil {
		return "", fmt.Errorf("building native replay binary for %s: %v\n%s", pkg, err, out)
	}
	c.testBins[pkg] = bin
	return bin, nil
}

// nativeRun executes cases natively in one process.
func (c *Ctx) nativeRun(pkg string, cases []nativeCase, timeout time.Duration) ([]nativeResult, string, error) {
	bin, err := c.testBinary(pkg)
	if err != nil {
		return nil, "", err
	}
	f, _ := os.CreateTemp(c.tmp, "cases-*.json")
	b, _ := json.Marshal(cases)
	f.Write(b)
	f.Close()
	outp := f.Name() + ".out"
	cmd := exec.Command(bin, "-test.run", "^TestVerifReplay$", "-test.timeout", timeout.String())
	cmd.Dir = filepath.Join(RepoDir, pkg)
	cmd.Env = append(goEnv(), "VERIF_REPLAY="+f.Name(), "VERIF_REPLAY_OUT="+outp)
	out, runErr := cmd.CombinedOutput()
	defer os.Remove(f.Name())
	defer os.Remove(outp)
	ob, err := os.ReadFile(outp)
	if err != nil {
		tail := string(out)
		if len(tail) > 1500 {
			tail = tail[:700] + "\n...\n" + tail[len(tail)-700:]
		}
		return nil, tail, fmt.Errorf("native run produced no result (%v)", runErr)
	}
	var res []nativeResult
	if err := json.Unmarshal(ob, &res); err != nil {
		return nil, string(out), err
	}
	return res, string(out), nil
}

func mergeInputs(in map[string]uint64, params map[string]int64) map[string]uint64 {
	m := make(map[string]uint64, len(in)+len(params))
	for k, v := range in {
		m[k] = v
	}
	for k, v := range params {
		m["param:"+k] = uint64(v)
	}
	return m
}

func sameObs(a, b []string) bool {
	if len(a) != len(b) {
		return false
	}
	for i := range a {
		if a[i] != b[i] {
			return false
		}
	}
	return true
}

// nativeOnlyKnown: does a known finding of this property cover the assertion id for this job?
func (c *Ctx) nativeOnlyKnown(j Job, assertID string) bool {
	known, _ := LoadKnown()
	for _, k := range known {
		if k.Kind == "known" && k.Property == c.Property && k.Job != "" && strings.HasPrefix(j.Name, k.Job) && k.AssertID != "" && k.AssertID == assertID {
			return true
		}
	}
	return false
}

// ValidatePaths replays every kept path witness natively and compares outcomes
// (translation validation of the engine), and confirms violation candidates.
func (c *Ctx) ValidatePaths(jr *JobResult) {
	j := jr.Job
	if len(jr.Paths) > 0 {
		cases := make([]nativeCase, len(jr.Paths))
		for i, p := range jr.Paths {
			cases[i] = nativeCase{Harness: j.Fn, In: mergeInputs(p.Inputs, j.Params)}
		}
		res, out, err := c.nativeRun(j.Pkg, cases, 10*time.Minute)
		if err != nil {
			jr.Inconclusive = append(jr.Inconclusive, "native replay failed: "+err.Error()+" "+firstLine(out))
		} else {
			for i, p := range jr.Paths {
				r := res[i]
				ok := r.Status == p.Status && sameObs(r.Obs, p.Obs)
				if ok && p.Status == "assert-fail" {
					ok = r.Msg == p.Msg
				}
				if ok && p.Status == "panic" {
					ok = panicMsgMatch(p.Msg, r.Msg)
				}
				if !ok && p.Status == "ok" && r.Status == "assert-fail" && c.nativeOnlyKnown(j, r.Msg) {
					// a listed finding that shows natively on EVERY run of this job (e.g. a result that
					// varies between builds of one process) is not a disagreement about this path
					jr.Validated++
					continue
				}
				if ok {
					jr.Validated++
				} else if len(jr.Mismatches) < 10 {
					jr.Mismatches = append(jr.Mismatches, fmt.Sprintf("job %s inputs %v: engine %s %q obs=%v / native %s %q obs=%v", j.Name, p.Inputs, p.Status, firstLine(p.Msg), p.Obs, r.Status, firstLine(r.Msg), r.Obs))
				} else {
					jr.Mismatches = append(jr.Mismatches, "...")
					break
				}
			}
		}
		if !j.Quiet || jr.Validated != len(jr.Paths) {
			c.Log("job %-28s native replay: %d/%d path witnesses agree", j.Name, jr.Validated, len(jr.Paths))
		}
	}
	// candidates: each in its own process (crashes, hangs, stack overflows)
	for _, cand := range jr.Candidates {
		res, out, err := c.nativeRun(j.Pkg, []nativeCase{{Harness: j.Fn, In: mergeInputs(cand.Inputs, j.Params)}}, 60*time.Second)
		if err != nil {
			// the process died: fatal error (stack overflow), timeout (hang), os.Exit
			cand.NativeStatus = "crash"
			cand.NativeMsg = crashSummary(out)
			cand.Confirmed = cand.Status == "budget" || cand.Status == "panic"
			continue
		}
		cand.NativeStatus = res[0].Status
		cand.NativeMsg = res[0].Msg
		cand.NativeObs = res[0].Obs
		if res[0].Status == "ok" && cand.Status == "assert-fail" && (strings.Contains(cand.AssertID, "file-system-consulted") || strings.Contains(cand.AssertID, "path-outside") || strings.Contains(cand.AssertID, "path-with-dot")) {
			// an engine-side file-system-log assertion: confirm it from the system calls of the native run
			if off := c.nativeFSTrace(j.Pkg, nativeCase{Harness: j.Fn, In: mergeInputs(cand.Inputs, j.Params)}, strings.Contains(cand.AssertID, "file-system-consulted")); off != "" {
				cand.NativeStatus, cand.NativeMsg, cand.Confirmed = "fs-trace", off, true
				continue
			}
		}
		switch cand.Status {
		case "assert-fail":
			cand.Confirmed = res[0].Status == "assert-fail" && res[0].Msg == cand.AssertID
		case "panic":
			cand.Confirmed = res[0].Status == "panic"
		case "budget":
			cand.Confirmed = false // native run terminated normally: budget too small, not a finding
		}
	}
}

func panicMsgMatch(engine, native string) bool {
	if engine == native {
		return true
	}
	// runtime error texts: compare the class only
	for _, cls := range []string{"nil pointer dereference", "index out of range", "slice bounds out of range", "divide by zero", "interface conversion", "nil map"} {
		if strings.Contains(engine, cls) && strings.Contains(native, cls) {
			return true
		}
	}
	return false
}

func crashSummary(out string) string {
	for _, l := range strings.Split(out, "\n") {
		if strings.Contains(l, "fatal error") || strings.Contains(l, "panic:") || strings.Contains(l, "stack overflow") || strings.Contains(l, "test timed out") || strings.Contains(l, "goroutine stack exceeds") {
			return strings.TrimSpace(l)
		}
	}
	if len(out) > 300 {
		out = out[:300]
	}
	return strings.TrimSpace(out)
}

// ---------- known findings ----------

type KnownFinding struct {
	Property string `json:"property"`
	ID       string `json:"id"`
	Kind     string `json:"kind"` // "known" | "fixed"
	// match
	Job      string `json:"job,omitempty"`    // prefix of the job name ("" = any)
	Status   string `json:"status,omitempty"` // panic | assert-fail | budget
	Site     string `json:"site,omitempty"`   // substring of the engine site (function@file:line)
	AssertID string `json:"assert_id,omitempty"`
	MsgHas   string `json:"msg_has,omitempty"`
	// Inputs: every listed symbolic input of the witness must have one of the listed values
	// (the specific input that fails), e.g. {"place": [15], "notation": [5, 7]}
	Inputs map[string][]uint64 `json:"inputs,omitempty"`
	What   string              `json:"what"`
	Commit string              `json:"commit,omitempty"`
}

func LoadKnown() ([]KnownFinding, error) {
	b, err := os.ReadFile(filepath.Join(VerifDir, "known_findings.json"))
	if err != nil {
		if os.IsNotExist(err) {
			return nil, nil
		}
		return nil, err
	}
	var f struct {
		Findings []KnownFinding `json:"findings"`
	}
	if err := json.Unmarshal(b, &f); err != nil {
		return nil, err
	}
	return f.Findings, nil
}

func (k *KnownFinding) Matches(c *Candidate) bool {
	if k.Kind != "known" || k.Property != c.Property {
		return false
	}
	if k.Job != "" && !strings.HasPrefix(c.Job, k.Job) {
		return false
	}
	if k.Status != "" && k.Status != c.Status {
		return false
	}
	if k.Site != "" && !strings.Contains(c.Site, k.Site) {
		return false
	}
	if k.AssertID != "" && k.AssertID != c.AssertID {
		return false
	}
	if k.MsgHas != "" && !strings.Contains(c.Msg, k.MsgHas) {
		return false
	}
	for name, allowed := range k.Inputs {
		v, ok := c.Inputs[name]
		if !ok {
			return false
		}
		found := false
		for _, a := range allowed {
			if a == v {
				found = true
			}
		}
		if !found {
			return false
		}
	}
	return true
}

// ---------- finishing: verdict + evidence ----------

type Verdict struct {
	Violations   []*Candidate
	Known        map[string][]*Candidate
	Unconfirmed  []*Candidate
	Inconclusive []string
}

func fileHash(p string) string {
	b, err := os.ReadFile(p)
	if err != nil {
		return ""
	}
	h := sha256.Sum256(b)
	return fmt.Sprintf("%x", h[:8])
}

// Finish validates, classifies, prints the interface lines, writes evidence and
// returns the process exit code.
func (c *Ctx) Finish(level string, assumptions []string, extra map[string]interface{}) int {
	known, err := LoadKnown()
	if err != nil {
		fmt.Fprintln(os.Stderr, "known_findings.json:", err)
		return 2
	}
	v := &Verdict{Known: map[string][]*Candidate{}}
	var wg sync.WaitGroup
	sem := make(chan struct{}, 4)
	for _, jr := range c.Results {
		wg.Add(1)
		go func(jr *JobResult) {
			defer wg.Done()
			sem <- struct{}{}
			defer func() { <-sem }()
			c.ValidatePaths(jr)
		}(jr)
	}
	wg.Wait()

	states, transitions, validated, totalPaths := 0, 0, 0, 0
	cachehits := 0
	var solverTime time.Duration
	fnsSeen := map[string]int{}
	notes := map[string]int{}
	var samples []interface{}
	var jobsSummary []map[string]interface{}
	var smtSamples []string
	for _, jr := range c.Results {
		states += jr.Stats.Paths
		transitions += jr.Stats.Queries
		cachehits += jr.Stats.CacheHits
		validated += jr.Validated
		totalPaths += len(jr.Paths)
		solverTime += jr.Stats.SolverTime
		for k, n := range jr.Stats.Fns {
			fnsSeen[k] += n
		}
		for k, n := range jr.Stats.Notes {
			notes[k] += n
		}
		for _, s := range jr.Samples {
			if len(samples) < 12 {
				samples = append(samples, s)
			}
		}
		smtSamples = append(smtSamples, jr.Stats.Samples...)
		for _, m := range jr.Mismatches {
			v.Inconclusive = append(v.Inconclusive, "engine/native mismatch: "+m)
		}
		for _, s := range jr.Inconclusive {
			v.Inconclusive = append(v.Inconclusive, jr.Job.Name+": "+s)
		}
		for _, cand := range jr.Candidates {
			if !cand.Confirmed {
				v.Unconfirmed = append(v.Unconfirmed, cand)
				continue
			}
			matched := false
			for i := range known {
				if known[i].Matches(cand) {
					v.Known[known[i].ID] = append(v.Known[known[i].ID], cand)
					matched = true
					break
				}
			}
			if !matched {
				v.Violations = append(v.Violations, cand)
			}
		}
		jobsSummary = append(jobsSummary, map[string]interface{}{
			"job": jr.Job.Name, "harness": jr.Job.Pkg + "." + jr.Job.Fn, "params": jr.Job.Params, "stubs": jr.Job.Stubs,
			"paths": jr.Stats.Paths, "solver_queries": jr.Stats.Queries, "cache_hits": jr.Stats.CacheHits,
			"sat": jr.Stats.Sat, "unsat": jr.Stats.Unsat, "unknown": jr.Stats.Unknown, "dropped": jr.Stats.Dropped,
			"by_status": jr.Stats.ByStatus, "aborted_paths": jr.Aborted, "excluded_paths_outside_bound": jr.Excluded, "excluded_why": jr.ExcludedWhy, "native_validated": jr.Validated, "native_replayed": len(jr.Paths),
			"interp_steps": jr.Stats.Steps, "solver_time_s": jr.Stats.SolverTime.Seconds(), "wall_s": jr.Stats.Wall.Seconds(),
		})
	}
	v.Inconclusive = append(v.Inconclusive, c.extraInconclusive...)
	// unconfirmed candidates make the run inconclusive (engine or stub artefact)
	for _, u := range v.Unconfirmed {
		v.Inconclusive = append(v.Inconclusive, fmt.Sprintf("unconfirmed counterexample (%s %s at %s, native: %s %s) witness %s", u.Status, firstLine(u.Msg), u.Site, u.NativeStatus, firstLine(u.NativeMsg), u.Witness))
	}

	// cross-solver diff on sampled queries
	xs := CrossCheck(smtSamples, c.Seed)
	if xs.Disagree > 0 {
		v.Inconclusive = append(v.Inconclusive, fmt.Sprintf("solver disagreement on %d sampled queries", xs.Disagree))
	}

	// functions encoded: repo + dependency functions executed symbolically, with file hashes
	type fnEnt struct {
		Name string `json:"fn"`
		N    int    `json:"calls"`
	}
	var fns []fnEnt
	files := map[string]string{}
	for _, p := range c.L.World.Prog.AllPackages() {
		for _, m := range p.Members {
			if f, ok := m.(*ssa.Function); ok && f.Pos().IsValid() {
				name := f.String()
				if fnsSeen[name] > 0 {
					pos := c.L.Fset.Position(f.Pos())
					if strings.HasPrefix(pos.Filename, RepoDir+"/") && !strings.Contains(pos.Filename, "zz_verif_") {
						files[strings.TrimPrefix(pos.Filename, RepoDir+"/")] = fileHash(pos.Filename)
					}
				}
			}
		}
	}
	for k, n := range fnsSeen {
		if strings.Contains(k, "jsight") && !strings.Contains(k, ".v") {
			fns = append(fns, fnEnt{k, n})
		}
	}
	sort.Slice(fns, func(i, j int) bool { return fns[i].Name < fns[j].Name })
	fnNames := make([]string, len(fns))
	for i, f := range fns {
		fnNames[i] = f.Name
	}

	// print interface lines
	exit := 0
	os.MkdirAll(filepath.Join(VerifDir, "out", c.Property), 0o755)
	for id, cands := range v.Known {
		var kf KnownFinding
		for _, k := range known {
			if k.ID == id {
				kf = k
			}
		}
		fmt.Printf("KNOWN-FINDING: property=%s %s [%s] witness: %s\n", c.Property, kf.What, id, cands[0].Witness)
	}
	for i, cand := range v.Violations {
		p := filepath.Join(VerifDir, "out", c.Property, fmt.Sprintf("cex-%d.json", i))
		b, _ := json.MarshalIndent(cand, "", " ")
		os.WriteFile(p, b, 0o644)
		fmt.Printf("VIOLATION property=%s replay=%s\n", c.Property, p)
		fmt.Printf("  %s: %s %s at %s; witness %s; native: %s %s\n", cand.Job, cand.Status, firstLine(cand.Msg+cand.AssertID), cand.Site, cand.Witness, cand.NativeStatus, firstLine(cand.NativeMsg))
		exit = 1
	}
	for _, s := range v.Inconclusive {
		fmt.Fprintf(os.Stderr, "INCONCLUSIVE: %s\n", s)
	}
	if exit == 0 && len(v.Inconclusive) > 0 {
		exit = 2
	}

	cov := map[string]interface{}{
		"states":                        states,
		"transitions":                   transitions + cachehits,
		"traces_validated_against_impl": validated,
		"samples":                       samples,
		"explanation":                   "states = terminal paths of the real SSA enumerated by concolic generational search (every other branch side refuted by the solver); transitions = branch-flip / assertion queries decided (solver calls + exact-text cache hits of earlier solver answers)",
		"solver_queries":                transitions,
		"query_cache_hits":              cachehits,
		"solver_time_s":                 solverTime.Seconds(),
		"solver":                        "z3 5.1.0 (z3-new -in, push/pop, QF_BV terms, no set-logic)",
		"cross_solver":                  xs,
		"native_replayed":               totalPaths,
		"functions_encoded":             fnNames,
		"source_files_sha256_prefix":    files,
		"jobs":                          jobsSummary,
		"imprecision_notes":             notes,
		"known_findings_hit":            len(v.Known),
		"unconfirmed":                   len(v.Unconfirmed),
		"inconclusive":                  v.Inconclusive,
		"checker_cmd":                   "bin/vcheck " + c.Property + " --tier " + c.Tier,
	}
	for k, x := range extra {
		cov[k] = x
	}
	ev := map[string]interface{}{
		"property_id": c.Property,
		"tier":        c.Tier,
		"seed":        c.Seed,
		"level":       level,
		"coverage":    cov,
		"assumptions": assumptions,
		"wall_s":      time.Since(c.t0).Seconds(),
		"violations":  len(v.Violations),
	}
	b, _ := json.MarshalIndent(ev, "", " ")
	os.MkdirAll(filepath.Join(VerifDir, "evidence"), 0o755)
	if err := os.WriteFile(filepath.Join(VerifDir, "evidence", c.Property+".json"), b, 0o644); err != nil {
		fmt.Fprintln(os.Stderr, err)
		return 2
	}
	c.Log("done: paths=%d queries=%d(+%d cached) validated=%d violations=%d known=%d inconclusive=%d exit=%d", states, transitions, cachehits, validated, len(v.Violations), len(v.Known), len(v.Inconclusive), exit)
	return exit
}

// Replay re-runs a stored counterexample natively against /repo's current tree.
func Replay(property, path string) int {
	b, err := os.ReadFile(path)
	if err != nil {
		fmt.Fprintln(os.Stderr, err)
		return 2
	}
	var cand Candidate
	if err := json.Unmarshal(b, &cand); err != nil {
		fmt.Fprintln(os.Stderr, err)
		return 2
	}
	c := &Ctx{Property: property, testBins: map[string]string{}, t0: time.Now()}
	c.Log = func(format string, a ...interface{}) { fmt.Fprintf(os.Stderr, format+"\n", a...) }
	tmp, _ := os.MkdirTemp("", "vreplay-")
	c.tmp = tmp
	defer c.Close()
	res, out, err := c.nativeRun(cand.Pkg, []nativeCase{{Harness: cand.Harness, In: mergeInputs(cand.Inputs, cand.Params)}}, 60*time.Second)
	fmt.Printf("counterexample %s (%s): engine predicted %s %s at %s; witness %s\n", path, cand.Job, cand.Status, firstLine(cand.Msg+cand.AssertID), cand.Site, cand.Witness)
	if err != nil {
		fmt.Printf("native: process died: %s\n", crashSummary(out))
		fmt.Printf("VIOLATION property=%s replay=%s\n", property, path)
		return 1
	}
	fmt.Printf("native: %s %s obs=%v\n", res[0].Status, res[0].Msg, res[0].Obs)
	if res[0].Status == "ok" {
		fmt.Println("does not reproduce on the current tree")
		return 0
	}
	fmt.Printf("VIOLATION property=%s replay=%s\n", property, path)
	return 1
}

// SelfTest: corpus differential — every .jst under /repo/testdata is built
// concretely inside the engine (HCorpus) and natively; observations must agree.
func SelfTest() int {
	c, err := NewCtx("SELFTEST", "quick", 1)
	if err != nil {
		fmt.Fprintln(os.Stderr, "setup failed:", err)
		return 2
	}
	defer c.Close()
	fn := c.L.Func(symgo.RepoModule+"/core", "HCorpus")
	n := 0
	filepath.Walk(filepath.Join(RepoDir, "testdata"), func(p string, info os.FileInfo, err error) error {
		if err == nil && !info.IsDir() && strings.HasSuffix(p, ".jst") {
			n++
		}
		return nil
	})
	type out struct {
		status string
		msg    string
		obs    []string
	}
	res := make([]out, n)
	var wg sync.WaitGroup
	idx := make(chan int, n)
	for i := 0; i < n; i++ {
		idx <- i
	}
	close(idx)
	for w := 0; w < 16; w++ {
		wg.Add(1)
		go func() {
			defer wg.Done()
			for i := range idx {
				cfg := &symgo.Config{MaxSteps: 50000000, MaxDepth: 2000, Params: map[string]int64{"i": int64(i)}}
				in := symgo.NewInterp(c.L.World, cfg, nil)
				r := in.Run(fn, nil)
				res[i] = out{r.Status.String(), r.Msg + " @ " + r.Site, r.Obs}
			}
		}()
	}
	wg.Wait()
	c.Log("engine built %d corpus files", n)
	cases := make([]nativeCase, n)
	for i := range cases {
		cases[i] = nativeCase{Harness: "HCorpus", In: map[string]uint64{"param:i": uint64(i)}}
	}
	nat, outp, err := c.nativeRun("core", cases, 10*time.Minute)
	if err != nil {
		fmt.Fprintln(os.Stderr, "native corpus run failed:", err, outp)
		return 2
	}
	bad := 0
	for i := range cases {
		if res[i].status != nat[i].Status || !sameObs(res[i].obs, nat[i].Obs) {
			bad++
			if bad <= 200 {
				fmt.Printf("MISMATCH corpus file #%d: engine %s %s obs=%v\n   native %s %s obs=%v\n", i, res[i].status, firstLine(res[i].msg), res[i].obs, nat[i].Status, firstLine(nat[i].Msg), nat[i].Obs)
			}
		}
	}
	fmt.Printf("selftest: %d corpus files, %d mismatches\n", n, bad)
	if bad > 0 {
		return 2
	}
	return 0
}

// StaticNondeterminismScan lists sources of nondeterminism in the repository's packages (from SSA).
func StaticNondeterminismScan(c *Ctx) map[string]interface{} {
	var ranges, calls, convs, gos, globals []string
	seen := map[*ssa.Function]bool{}
	globalRoot := func(v ssa.Value) *ssa.Global {
		for {
			switch x := v.(type) {
			case *ssa.Global:
				return x
			case *ssa.FieldAddr:
				v = x.X
			case *ssa.IndexAddr:
				v = x.X
			default:
				return nil
			}
		}
	}
	var visit func(f *ssa.Function)
	visit = func(f *ssa.Function) {
		if f == nil || seen[f] || f.Blocks == nil {
			return
		}
		seen[f] = true
		for _, b := range f.Blocks {
			for _, ins := range b.Instrs {
				pos := c.L.Fset.Position(ins.Pos())
				where := fmt.Sprintf("%s:%d %s", strings.TrimPrefix(pos.Filename, RepoDir+"/"), pos.Line, f.String())
				switch ins := ins.(type) {
				case *ssa.Range:
					if _, isMap := ins.X.Type().Underlying().(*types.Map); isMap {
						ranges = append(ranges, where)
					}
				case *ssa.Call:
					if callee := ins.Call.StaticCallee(); callee != nil && callee.Pkg != nil {
						n := callee.String()
						if strings.HasPrefix(n, "time.Now") || strings.HasPrefix(n, "math/rand.") || n == "os.Getenv" || n == "os.Environ" || strings.HasPrefix(n, "time.Since") {
							calls = append(calls, where+" -> "+n)
						}
					}
				case *ssa.Go:
					gos = append(gos, where+" go statement")
				case *ssa.Select:
					gos = append(gos, where+" select")
				case *ssa.Send:
					gos = append(gos, where+" channel send")
				case *ssa.Store:
					if g := globalRoot(ins.Addr); g != nil && f.Name() != "init" && !strings.HasPrefix(f.Name(), "init#") {
						globals = append(globals, where+" stores to "+g.String())
					}
				case *ssa.Convert:
					if _, isP := ins.X.Type().Underlying().(*types.Pointer); isP {
						if b, ok := ins.Type().Underlying().(*types.Basic); ok && (b.Kind() == types.Uintptr || b.Kind() == types.UnsafePointer) {
							convs = append(convs, where)
						}
					}
				}
			}
		}
		for _, a := range f.AnonFuncs {
			visit(a)
		}
	}
	for path, p := range c.L.Pkgs {
		if !strings.HasPrefix(path, symgo.RepoModule) || strings.Contains(path, "/internal/") {
			continue
		}
		for _, m := range p.Members {
			switch m := m.(type) {
			case *ssa.Function:
				if !strings.Contains(m.Name(), "vRegister") && !strings.HasPrefix(m.Name(), "H") && !strings.HasPrefix(m.Name(), "v") {
					visit(m)
				}
			case *ssa.Type:
				for _, t := range []types.Type{m.Type(), types.NewPointer(m.Type())} {
					ms := c.L.World.Prog.MethodSets.MethodSet(t)
					for i := 0; i < ms.Len(); i++ {
						visit(c.L.World.Prog.MethodValue(ms.At(i)))
					}
				}
			}
		}
	}
	sort.Strings(ranges)
	sort.Strings(calls)
	sort.Strings(convs)
	sort.Strings(gos)
	sort.Strings(globals)
	return map[string]interface{}{"range_over_map": ranges, "time_rand_env_calls": calls, "pointer_to_integer_conversions": convs,
		"goroutines_and_channels": gos, "stores_to_package_level_variables_outside_init": globals}
}

// nativeFSTrace runs one case under strace and returns an offending path accessed
// between the harness' begin/end markers ("" = none): any path under the run's
// temporary root when anyAccess is set, otherwise any path under the root that is
// outside <root>/p/ or contains a dot segment.
func (c *Ctx) nativeFSTrace(pkg string, cs nativeCase, anyAccess bool) string {
	bin, err := c.testBinary(pkg)
	if err != nil {
		return ""
	}
	f, _ := os.CreateTemp(c.tmp, "trace-*.json")
	b, _ := json.Marshal([]nativeCase{cs})
	f.Write(b)
	f.Close()
	logp := f.Name() + ".strace"
	cmd := exec.Command("strace", "-f", "-e", "trace=%file", "-o", logp, bin, "-test.run", "^TestVerifReplay$", "-test.timeout", "60s")
	cmd.Dir = filepath.Join(RepoDir, pkg)
	cmd.Env = append(goEnv(), "VERIF_REPLAY="+f.Name(), "VERIF_REPLAY_OUT="+f.Name()+".out")
	cmd.CombinedOutput()
	defer os.Remove(f.Name())
	defer os.Remove(f.Name() + ".out")
	defer os.Remove(logp)
	lb, err := os.ReadFile(logp)
	if err != nil {
		return ""
	}
	inside, root := false, ""
	for _, line := range strings.Split(string(lb), "\n") {
		i := strings.IndexByte(line, '"')
		if i < 0 {
			continue
		}
		j := strings.IndexByte(line[i+1:], '"')
		if j < 0 {
			continue
		}
		p := line[i+1 : i+1+j]
		if strings.HasPrefix(p, "/verif-fs-mark/begin") {
			inside, root = true, strings.TrimPrefix(p, "/verif-fs-mark/begin")
			continue
		}
		if strings.HasPrefix(p, "/verif-fs-mark/end") {
			inside = false
			continue
		}
		if !inside || root == "" || !strings.HasPrefix(p, root) {
			continue
		}
		rel := strings.TrimPrefix(p, root)
		if anyAccess {
			return p
		}
		if !strings.HasPrefix(rel, "/p/") || strings.Contains(rel, "/../") || strings.Contains(rel, "/./") || strings.HasSuffix(rel, "/..") || strings.HasSuffix(rel, "/.") {
			return p
		}
	}
	return ""
}
