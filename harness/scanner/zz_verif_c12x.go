package scanner

import (
	"github.com/jsightapi/jsight-schema-core/fs"
)

var vC12Keywords = []string{"GET", "URL", "TAG", "Tags", "PASTE", "OperationId", "Method", "SERVER", "POST", "MACRO", "TYPE", "201", "INCLUDE", "Protocol"}

// HScanExact (C12, exactness): a directive line rendered from fields
//   KW (SP+ P1)? (SP+ P2)? (SP+ ANNOTATION)? LINE-END
// with symbolic field contents; the lexeme stream must be exactly the fields.
// Params: kw, l1, l2 (parameter lengths, 0 = absent), q1, q2 (quoted), la (annotation length, -1 = absent), ml (multiline style), nl (0 LF,1 CRLF,2 CR,3 EOF)
func HScanExact() {
	kw := vC12Keywords[vParam("kw", 0)]
	l1, l2, la := vParam("l1", 2), vParam("l2", 0), vParam("la", -1)
	q1, q2, ml, nl := vParam("q1", 0) == 1, vParam("q2", 0) == 1, vParam("ml", 0) == 1, vParam("nl", 0)
	type ext struct{ t LexemeType; b, e int }
	var want []ext
	data := []byte(kw)
	want = append(want, ext{Keyword, 0, len(kw) - 1})
	sep := func(id string) {
		// one or two blanks (symbolic: space or tab)
		c := vByte(id)
		vAssume(c == ' ' || c == '\t')
		data = append(data, c)
	}
	param := func(id string, l int, quoted bool) {
		if l == 0 {
			return
		}
		sep("s" + id)
		p := vBytes("p"+id, l)
		b := len(data)
		if quoted {
			for _, c := range p {
				vAssume(c != '"' && c != '\\' && c != '\n' && c != '\r' && c != 0)
			}
			data = append(data, '"')
			data = append(data, p...)
			data = append(data, '"')
		} else {
			for i, c := range p {
				vAssume(c != ' ' && c != '\t' && c != '\n' && c != '\r' && c != '#' && c != 0)
				if i == 0 {
					vAssume(c != '"')
				}
			}
			// a bare parameter must not look like the start of an annotation
			if l >= 2 {
				vAssume(!(p[0] == '/' && (p[1] == '/' || p[1] == '*')))
			}
			data = append(data, p...)
		}
		want = append(want, ext{Parameter, b, len(data) - 1})
	}
	param("1", l1, q1)
	param("2", l2, q2)
	if la >= 0 {
		sep("sa")
		a := vBytes("a", la)
		if ml {
			data = append(data, '/', '*')
			b := len(data)
			for i, c := range a {
				vAssume(c != 0)
				if i > 0 {
					vAssume(!(a[i-1] == '*' && c == '/'))
				}
			}
			if la > 0 {
				vAssume(a[0] != '/') // "/*/" is not a closed annotation
			}
			data = append(data, a...)
			want = append(want, ext{Annotation, b, len(data) - 1})
			data = append(data, '*', '/')
		} else {
			data = append(data, '/', '/')
			b := len(data)
			for _, c := range a {
				vAssume(c != '\n' && c != '\r' && c != '#' && c != 0)
			}
			data = append(data, a...)
			want = append(want, ext{Annotation, b, len(data) - 1})
		}
	}
	switch nl {
	case 0:
		data = append(data, '\n')
	case 1:
		data = append(data, '\r', '\n')
	case 2:
		data = append(data, '\r')
	}
	f := fs.NewFile("/vfs/root.jst", data)
	s := NewJApiScanner(f)
	for i, w := range want {
		lex, je := s.Next()
		vAssert(je == nil, "c12x-wellformed-line-rejected")
		vAssert(lex != nil, "c12x-lexeme-missing")
		vAssert(lex.Type() == w.t, "c12x-lexeme-type")
		vAssert(int(lex.Begin()) == w.b, "c12x-lexeme-begin")
		vAssert(int(lex.End()) == w.e, "c12x-lexeme-end")
		v := lex.Value().Data()
		vAssert(len(v) == w.e-w.b+1, "c12x-value-length")
		for k := range v {
			vAssert(v[k] == data[w.b+k], "c12x-value-bytes")
		}
		vObserve("lex", i, int(lex.Type()), w.b, w.e)
	}
	lex, je := s.Next()
	vAssert(je == nil, "c12x-error-after-line")
	vAssert(lex == nil, "c12x-extra-lexeme")
	vReach("exact")
}

func init() { vRegister("HScanExact", HScanExact) }
