package scanner

import (
	"github.com/jsightapi/jsight-schema-core/fs"
)

// Prefixes after which k arbitrary bytes follow (one per family of scanner state).
var vC12Prefixes = []string{
	"", "\n", "#", "##", "###", "### a #", "### a ##", "GET", "GET ", "GET /a", "GET \"a", "GET \"a\\", "GET \"a\"",
	"GET /a /", "GET /a //", "GET /a /*", "GET /a // x #", "GET /a #", "GET /a\n", "200", "200 any\n", "200\n",
	"200 regex\n", "200 regex\n/", "200 regex\n/a\\", "200 regex\n/a/", "Body\n", "TYPE @a\n", "TYPE @a\n{}", "TYPE @a\n{} ",
	"Request\n", "Query\n", "Headers\n", "Path\n", "ENUM @e\n", "ENUM @e\n[1]", "ENUM @e\n[1] ", "Description\n",
	"Description\n a", "Description\n a\n", "Description\n(", "Description\n(\n", "URL /a\n(", "URL /a\n(\n)", "INCLUDE ",
	"INCLUDE a", "GET /a /* x *", "OperationId", "Tags @a", "Protocol json-rpc-2.0\n", "Method m\n", "Params\n", "Result\n",
	"SERVER @s\n", "BaseUrl \"h\"\n", "TAG @t\n", "MACRO @m\n", "PASTE @m\n", "JSIGHT 0.3\n", "INFO\n", "Title \"t\"\n", "Version 1\n",
	"200\n(", "TYPE @a\n(", "ENUM @e\n(\n", "GET /a\n(\n", "Params\n(", "GET /a # c #", "GET /a\n# c ", "### a\nb ##",
}

// lexeme grammar automaton (DESIGN.md B3)
const (
	vQ0  = iota // nothing pending (start, after a body, after ')')
	vQK         // after a keyword or a parameter
	vQA         // after the annotation
	vQOk        // after '(' that follows a keyword (body may follow)
	vQO0        // after '(' with no pending keyword
	vQB         // after the body
)

// HScanWF (C12, well-formedness): prefix ++ n arbitrary bytes through Next().
func HScanWF() {
	n := vParam("n", 3)
	pre := vC12Prefixes[vParam("pre", 0)]
	data := append([]byte(pre), vBytes("d", n)...)
	total := len(data)
	f := fs.NewFile("/vfs/root.jst", data)
	s := NewJApiScanner(f)
	q := vQ0
	prevBegin, prevEnd := -1, -1
	for i := 0; i < 4*total+8; i++ {
		lex, je := s.Next()
		if je != nil {
			vAssert(je.File == f, "c12-error-in-another-file")
			vAssert(int(je.Index) <= total, "c12-error-index-outside-file")
			vObserve("err", int(je.Index))
			vReach("error")
			return
		}
		if lex == nil {
			vObserve("eof")
			vReach("eof")
			return
		}
		b, e, t := int(lex.Begin()), int(lex.End()), lex.Type()
		vObserve("lex", int(t), b, e)
		// extents
		vAssert(lex.File() == f, "c12-lexeme-in-another-file")
		vAssert(b >= 0 && b <= e+1 && e+1 <= total, "c12-lexeme-outside-file")
		vAssert(b > prevEnd && b >= prevBegin, "c12-lexemes-overlap-or-out-of-order")
		prevBegin, prevEnd = b, e
		// bracketing per directive
		switch t {
		case Keyword:
			// a keyword consists of letters / digits only and starts where a directive may start
			for p := b; p <= e; p++ {
				c := data[p]
				vAssert(c >= 'A' && c <= 'Z' || c >= 'a' && c <= 'z' || c >= '0' && c <= '9', "c12-keyword-lexeme-with-foreign-byte")
			}
			q = vQK
		case Parameter:
			vAssert(q == vQK, "c12-parameter-not-after-keyword")
		case Annotation:
			vAssert(q == vQK, "c12-annotation-not-after-keyword-or-parameter")
			q = vQA
		case ContextExplicitOpening:
			vAssert(b == e && data[b] == '(', "c12-opening-parenthesis-lexeme-is-not-the-parenthesis")
			if q == vQK || q == vQA {
				q = vQOk
			} else {
				q = vQO0
			}
		case ContextExplicitClosing:
			vAssert(b == e && data[b] == ')', "c12-closing-parenthesis-lexeme-is-not-the-parenthesis")
			q = vQ0
		case Schema, Text, Enum, Json:
			vAssert(q == vQK || q == vQA || q == vQOk, "c12-body-without-keyword-or-second-body")
			q = vQB
		default:
			vAssert(false, "c12-unknown-lexeme-type")
		}
	}
	vAssert(false, "c12-scanner-does-not-terminate")
}

func init() { vRegister("HScanWF", HScanWF) }
