package scanner

// Frozen specification tables (JSight API 0.3), hand-transcribed; never derived
// from the implementation at run time. See DESIGN.md Appendix B.

// vSpecKeywords: the 30 keywords, with the directive-table name they must map to.
var vSpecKeywords = []string{
	"JSIGHT", "INFO", "Title", "Version", "Description", "SERVER", "BaseUrl", "URL",
	"GET", "POST", "PUT", "PATCH", "DELETE", "Body", "Request", "Path", "Headers",
	"Query", "TYPE", "ENUM", "MACRO", "PASTE", "INCLUDE", "Protocol", "Method",
	"Params", "Result", "TAG", "Tags", "OperationId",
}

const vSpecResponseCodeName = "HTTP-response-code"

// vSpecIsKeywordTerminator: what may follow a keyword (besides end of file).
func vSpecIsKeywordTerminator(c byte) bool {
	return c == ' ' || c == '\t' || c == '\n' || c == '\r' || c == '#' || c == '/'
}

// vSpecKeywordPrefix returns L = the length of the longest prefix of data that
// is a prefix of some keyword or of a response code [1-5][0-9][0-9], and
// whether data[:L] is a complete keyword (name = its directive-table name).
func vSpecKeywordPrefix(data []byte) (l int, complete bool, name string) {
	best := 0
	for _, kw := range vSpecKeywords {
		m := 0
		for m < len(kw) && m < len(data) && data[m] == kw[m] {
			m++
		}
		if m == len(kw) {
			return m, true, kw
		}
		if m > best {
			best = m
		}
	}
	// response code
	m := 0
	if len(data) > 0 && data[0] >= '1' && data[0] <= '5' {
		m = 1
		for m < 3 && m < len(data) && data[m] >= '0' && data[m] <= '9' {
			m++
		}
		if m == 3 {
			return 3, true, vSpecResponseCodeName
		}
	}
	if m > best {
		best = m
	}
	return best, false, ""
}
