package scanner

import (
	"github.com/jsightapi/jsight-schema-core/bytes"
	"github.com/jsightapi/jsight-schema-core/fs"

	"github.com/jsightapi/jsight-api-core/directive"
)

// Start contexts: concrete prefixes after which a directive may start.
var vC13Contexts = []string{
	"",                 // 0 file start
	"\n",               // 1 after a line end
	"GET /a\n",         // 2 after a complete directive
	"URL /a\n(\n",      // 3 inside an explicit context
	"URL /a\n(\n)\n",   // 4 after ')'
	"# c\n",            // 5 after a line comment
	"### c ###\n",      // 6 after a block comment
	"200 any\n",        // 7 response body state (stateResponseBody ... stateExpectKeyword)
	"TYPE @a any\n   ", // 8 after an indented blank
}

// HKeyword (C13): implementation vs. the frozen keyword specification on
// ctx ++ d[0..n) for every byte string d.
func HKeyword() {
	n := vParam("n", 4)
	ctx := vC13Contexts[vParam("ctx", 0)]
	d := vBytes("d", n)
	// a directive starts here: the first byte is not trivia / parenthesis / NUL
	vAssume(d[0] != ' ' && d[0] != '\t' && d[0] != '\n' && d[0] != '\r' && d[0] != '#' && d[0] != '(' && d[0] != ')' && d[0] != 0)
	// The scanner is given ctx ++ d[:L+1]: everything up to and including the byte that
	// decides (first deviating byte, or the byte after a complete keyword).
	L, complete, name := vSpecKeywordPrefix(d)
	m := L + 1
	if m > n {
		m = n
	}
	d = d[:m]
	n = m
	data := append([]byte(ctx), d...)
	base := len(ctx)
	f := fs.NewFile("/vfs/root.jst", data)
	s := NewJApiScanner(f)

	// skip the lexemes of the context
	var lex *Lexeme
	var je *jerrT
	for i := 0; i < 64; i++ {
		lex, je = s.Next()
		if je != nil || lex == nil || int(lex.Begin()) >= base {
			break
		}
	}

	if !complete {
		// not a keyword: error at the first deviating byte (or at end of file when truncated)
		vAssert(je != nil, "c13-nonkeyword-not-rejected")
		vAssert(int(je.Index) == base+L, "c13-error-not-at-first-deviating-byte")
		vReach("reject")
		return
	}
	// a complete keyword: it is reported as Keyword [base, base+L-1] ...
	vAssert(je == nil && lex != nil, "c13-keyword-rejected")
	vAssert(lex.Type() == Keyword && int(lex.Begin()) == base && int(lex.End()) == base+L-1, "c13-keyword-extent")
	// ... known to the directive table under the right name ...
	de, err := directive.NewDirectiveType(lex.Value().String())
	vAssert(err == nil, "c13-keyword-unknown-to-directive-table")
	vAssert(de.String() == name, "c13-keyword-maps-to-wrong-directive")
	vAssert(directive.IsStartWithDirective(bytes.NewBytes(d)), "c13-IsStartWithDirective-disagrees")
	vReach("kw:" + name)
	if L == n {
		vReach("kw-at-eof")
		return
	}
	// ... and must be followed by a terminator
	lex2, je2 := s.Next()
	_ = lex2
	if vSpecIsKeywordTerminator(d[L]) {
		vAssert(je2 == nil || int(je2.Index) > base+L, "c13-good-terminator-rejected")
		vReach("terminated")
	} else {
		vAssert(je2 != nil, "c13-bad-terminator-accepted")
		vAssert(int(je2.Index) == base+L, "c13-bad-terminator-error-index")
		vReach("bad-terminator")
	}
}

func init() { vRegister("HKeyword", HKeyword) }
