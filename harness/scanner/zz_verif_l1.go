package scanner

import (
	"github.com/jsightapi/jsight-schema-core/fs"
)

// hScanAll: drive Next() over an all-symbolic file of $n bytes (n is a harness parameter).
func HScanAll() {
	n := vParam("n", 3)
	data := vBytes("d", n)
	f := fs.NewFile("/vfs/root.jst", data)
	s := NewJApiScanner(f)
	for i := 0; i < 4*n+8; i++ {
		lex, je := s.Next()
		if je != nil {
			vObserve("err", int(je.Index), je.Msg)
			return
		}
		if lex == nil {
			vObserve("eof")
			return
		}
		vObserve("lex", int(lex.Type()), int(lex.Begin()), int(lex.End()))
	}
	vAssert(false, "scanner-does-not-terminate")
}

func init() { vRegister("HScanAll", HScanAll) }
