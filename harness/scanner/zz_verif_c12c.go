package scanner

import (
	"github.com/jsightapi/jsight-schema-core/fs"
)

// HScanComment (C12 exactness / C08): comments yield no lexemes and hide nothing.
// The document is
//
//	GET /a <C1>\n<C2>200 any\n### x\ny ###\n404 any <C3>
//
// where one of C1 (trailing line comment), C2 (a comment line of its own), C3
// (trailing comment ended by the end of the file) — parameter `site` — is a comment
// with k symbolic content bytes: form 0 "#"+content, form 1 "###"+content+"###"
// (content without "###" and not ending in "#"). The lexeme stream must be exactly
// GET, /a, 200, any, 404, any with their extents.
func HScanComment() {
	k := vParam("k", 3)
	site := vParam("site", 0)
	form := vParam("form", 0)
	c := vBytes("c", k)
	var comment []byte
	if form == 0 {
		comment = append(comment, '#')
		for _, b := range c {
			vAssume(b != '\n' && b != '\r' && b != 0)
		}
		// "###" right at the start would be a block comment
		if k >= 2 {
			vAssume(!(c[0] == '#' && c[1] == '#'))
		}
		comment = append(comment, c...)
	} else {
		comment = append(comment, '#', '#', '#')
		for i, b := range c {
			vAssume(b != 0)
			if i+2 < k {
				vAssume(!(c[i] == '#' && c[i+1] == '#' && c[i+2] == '#'))
			}
		}
		if k > 0 {
			vAssume(c[k-1] != '#')
		}
		comment = append(comment, c...)
		comment = append(comment, '#', '#', '#')
	}
	type lx struct {
		t    LexemeType
		b, e int
	}
	var data []byte
	var want []lx
	put := func(t LexemeType, s string) {
		want = append(want, lx{t, len(data), len(data) + len(s) - 1})
		data = append(data, s...)
	}
	put(Keyword, "GET")
	data = append(data, ' ')
	put(Parameter, "/a")
	if site == 0 {
		data = append(data, ' ')
		data = append(data, comment...)
	}
	data = append(data, '\n')
	if site == 1 {
		data = append(data, comment...)
		data = append(data, '\n')
	}
	data = append(data, ' ', ' ')
	put(Keyword, "200")
	data = append(data, ' ')
	put(Parameter, "any")
	data = append(data, "\n### x\ny ###\n  "...)
	put(Keyword, "404")
	data = append(data, ' ')
	put(Parameter, "any")
	if site == 2 {
		data = append(data, ' ')
		data = append(data, comment...)
	}
	f := fs.NewFile("/vfs/root.jst", data)
	s := NewJApiScanner(f)
	for _, x := range want {
		lex, je := s.Next()
		vAssert(je == nil, "c12c-comment-makes-the-document-rejected")
		vAssert(lex != nil, "c12c-comment-hides-a-lexeme")
		vAssert(lex.Type() == x.t, "c12c-lexeme-type")
		vAssert(int(lex.Begin()) == x.b && int(lex.End()) == x.e, "c12c-lexeme-extent")
	}
	lex, je := s.Next()
	vAssert(je == nil, "c12c-comment-makes-the-document-rejected")
	vAssert(lex == nil, "c12c-comment-yields-a-lexeme")
	vReach("comment-exact")
	vObserve("ok", len(data))
}

func init() { vRegister("HScanComment", HScanComment) }
