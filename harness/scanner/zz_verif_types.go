package scanner

import "github.com/jsightapi/jsight-api-core/jerr"

type jerrT = jerr.JApiError
