package scanner

import (
	"github.com/jsightapi/jsight-schema-core/fs"
)

type vBodyTpl struct {
	head string // directive line(s) before the body
	body string
	typ  LexemeType
}

var vC12Bodies = []vBodyTpl{
	{"TYPE @a\n", "{\"a\": 1}", Schema},
	{"ENUM @e\n", "[1,2]", Enum},
	{"200 regex\n", "/ab/", Text},
	{"Body\n", "{}", Schema},
	{"Headers\n  ", "{\"h\": \"v\"}", Schema},
	{"Request\n(\n", "[1, 2]", Schema},
}

// HScanExactBody (C12, exactness of bodies): head ++ body ++ k symbolic trivia
// bytes (blanks, line ends, '#' comments): the body lexeme must be exactly the
// body and nothing else may be reported.
func HScanExactBody() {
	tpl := vC12Bodies[vParam("tpl", 0)]
	k := vParam("k", 2)
	trail := vBytes("t", k)
	inComment := false
	for i, c := range trail {
		if i == 0 {
			vAssume(c == ' ' || c == '\t' || c == '\n' || c == '\r')
		}
		if inComment {
			vAssume(c != 0)
			if c == '\n' || c == '\r' {
				inComment = false
			}
			continue
		}
		vAssume(c == ' ' || c == '\t' || c == '\n' || c == '\r' || c == '#')
		if c == '#' {
			inComment = true
		}
	}
	// "###" opens a block comment that would need closing: keep to line comments
	for i := 0; i+1 < k; i++ {
		vAssume(!(trail[i] == '#' && trail[i+1] == '#'))
	}
	data := append([]byte(tpl.head+tpl.body), trail...)
	f := fs.NewFile("/vfs/root.jst", data)
	s := NewJApiScanner(f)
	bb, be := len(tpl.head), len(tpl.head)+len(tpl.body)-1
	// A "#" comment after a jsight / enum body is a comment of the SCHEMA language: how much of
	// it the body lexeme covers is decided by jsight-schema-core's Len() (it differs between
	// "#\n" at the end of the file and "#\n\n"). With such a comment the lexeme may extend into
	// the trivia (never beyond the file, never starting later); without one it is exact.
	schemaComment := false
	if tpl.typ != Text {
		for _, c := range trail {
			if c == '#' {
				schemaComment = true
			}
		}
	}
	seen := false
	for i := 0; i < 16; i++ {
		lex, je := s.Next()
		vAssert(je == nil, "c12b-wellformed-document-rejected")
		if lex == nil {
			break
		}
		switch lex.Type() {
		case Schema, Enum, Text, Json:
			vAssert(!seen, "c12b-second-body")
			seen = true
			vAssert(lex.Type() == tpl.typ, "c12b-body-type")
			vAssert(int(lex.Begin()) == bb, "c12b-body-begin")
			if schemaComment {
				vAssert(int(lex.End()) >= be && int(lex.End()) < len(data), "c12b-body-end")
				vAssert(string(lex.Value().Data()[:len(tpl.body)]) == tpl.body, "c12b-body-bytes")
			} else {
				vAssert(int(lex.End()) == be, "c12b-body-end")
				vAssert(string(lex.Value().Data()) == tpl.body, "c12b-body-bytes")
			}
		default:
			vAssert(int(lex.End()) < bb, "c12b-lexeme-after-body")
		}
	}
	vAssert(seen, "c12b-body-not-reported")
	vReach("body-exact")
	vObserve("ok", bb, be)
}

// HScanExactDescription (C12): Description free text ended by the next directive:
// "Description\n" ++ indent ++ word ++ line-end ++ indent ++ "GET /a\n".
// The Text lexeme covers exactly the bytes between the keyword line and the next keyword.
func HScanExactDescription() {
	k := vParam("k", 2)
	ind1, ind2, nl := vByte("i1"), vByte("i2"), vByte("nl")
	vAssume(ind1 == ' ' || ind1 == '\t')
	vAssume(ind2 == ' ' || ind2 == '\t')
	vAssume(nl == '\n' || nl == '\r')
	w := vBytes("w", k)
	for i, c := range w {
		vAssume(c != '\n' && c != '\r' && c != 0)
		if i == 0 {
			// the first word cannot start a directive, a parenthesis or be blank
			vAssume(!(c >= 'A' && c <= 'Z') && !(c >= '0' && c <= '9') && c != '(' && c != ')' && c != ' ' && c != '\t')
		}
	}
	head := "Description\n"
	data := []byte(head)
	data = append(data, ind1)
	data = append(data, w...)
	data = append(data, nl, ind2)
	tb, te := len(head), len(data)-1
	data = append(data, []byte("GET /a\n")...)
	f := fs.NewFile("/vfs/root.jst", data)
	s := NewJApiScanner(f)
	want := []struct {
		t    LexemeType
		b, e int
	}{{Keyword, 0, 10}, {Text, tb, te}, {Keyword, te + 1, te + 3}, {Parameter, te + 5, te + 6}}
	for _, x := range want {
		lex, je := s.Next()
		vAssert(je == nil && lex != nil, "c12d-wellformed-document-rejected")
		vAssert(lex.Type() == x.t, "c12d-lexeme-type")
		vAssert(int(lex.Begin()) == x.b, "c12d-lexeme-begin")
		vAssert(int(lex.End()) == x.e, "c12d-lexeme-end")
	}
	lex, je := s.Next()
	vAssert(je == nil && lex == nil, "c12d-extra-lexeme")
	vReach("description-exact")
	vObserve("ok", tb, te)
}

func init() {
	vRegister("HScanExactBody", HScanExactBody)
	vRegister("HScanExactDescription", HScanExactDescription)
}
