package scanner

import "github.com/jsightapi/jsight-schema-core/fs"

var vC12EndKeywords = []string{"GET", "PUT", "URL", "TAG", "200", "404", "POST", "TYPE", "ENUM", "Body", "Path", "PATCH", "Query", "MACRO", "PASTE", "DELETE", "SERVER", "Method", "Params", "Result", "Request", "Headers", "INCLUDE", "Protocol", "BaseUrl", "Description"}

var vC12EndTails = []string{"\n", "\r\n", "\r", " \n", "\t\n", " /a\n", " /a", " #c\n", "\n200 any"}

// HScanDescriptionEnd (C12): Description free text ended by a directive line whose keyword
// and tail are symbolic choices: "Description\n" ++ indent ++ "x" ++ line-end ++ KW ++ tail,
// KW one of 26 keywords (all lengths from 3 to 11 bytes), tail one of: line end (LF, CRLF,
// CR), blank + line end, " /a" + line end / end of file, a comment, another directive line.
// The Text lexeme ends exactly in front of the keyword and the keyword is reported.
func HScanDescriptionEnd() {
	kwSel, tailSel := vInt("kw", 0, len(vC12EndKeywords)-1), vInt("tail", 0, len(vC12EndTails)-1)
	ind1, nl := vByte("i1"), vByte("nl")
	vAssume(ind1 == ' ' || ind1 == '\t')
	vAssume(nl == '\n' || nl == '\r')
	kw, tail := "", ""
	for i := range vC12EndKeywords {
		if kwSel == i {
			kw = vC12EndKeywords[i]
		}
	}
	for i := range vC12EndTails {
		if tailSel == i {
			tail = vC12EndTails[i]
		}
	}
	head := "Description\n"
	data := []byte(head)
	data = append(data, ind1, 'x', nl)
	tb, te := len(head), len(data)-1
	data = append(data, []byte(kw)...)
	data = append(data, []byte(tail)...)
	s := NewJApiScanner(fs.NewFile("/vfs/root.jst", data))
	want := []struct {
		t    LexemeType
		b, e int
	}{{Keyword, 0, 10}, {Text, tb, te}, {Keyword, te + 1, te + len(kw)}}
	for _, x := range want {
		lex, je := s.Next()
		vAssert(je == nil && lex != nil, "c12e-wellformed-document-rejected")
		vAssert(lex.Type() == x.t, "c12e-lexeme-type")
		vAssert(int(lex.Begin()) == x.b, "c12e-lexeme-begin")
		vAssert(int(lex.End()) == x.e, "c12e-lexeme-end")
	}
	vReach("description-end-exact")
}

func init() { vRegister("HScanDescriptionEnd", HScanDescriptionEnd) }
