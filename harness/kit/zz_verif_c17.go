package kit

import (
	"strings"

	"github.com/jsightapi/jsight-schema-core/fs"

	"github.com/jsightapi/jsight-api-core/catalog"
	"github.com/jsightapi/jsight-api-core/catalog/ser/openapi"
)

var vC17Docs = []string{
	// 0: HTTP kitchen sink: URL grouping, path variables with and without Path, query, request headers/body, several responses, tags, types, enum, regex
	"JSIGHT 0.3\nINFO\n  Title \"T\"\n  Version 1\nSERVER @s\n  BaseUrl \"https://h\"\nTAG @t\n" +
		"ENUM @e\n[1, \"a\"]\nTYPE @re regex\n/ab+/\nTYPE @base\n{\n  \"id\": 1, // {min: 0}\n  \"k\": \"a\" // {enum: @e}\n}\n" +
		"TYPE @kid\n{ // {allOf: \"@base\"}\n  \"s\": @re,\n  \"u\": 1 // {or: [\"@re\", \"integer\"]}\n}\n" +
		"URL /c/{id}\n  Path\n  {\"id\": 5}\n  GET // read\n    Tags @t\n    Query\n    {\"q\": [1, 2]}\n    200 [@kid]\n    404 any\n  PUT\n    Request\n      Headers\n      {\"h\": \"v\"}\n      Body @base\n    204 empty\n" +
		"POST /c/{id}/f/{fid}\n  Description\n    text\n  OperationId mk\n  Request @kid\n  201 regex\n  /x+/\n  200\n    Headers\n    {\"rh\": 1}\n    Body\n    {\"ok\": true}\n" +
		"DELETE /d\n  200 @re\nPATCH /d\n  Request any\n  200 any\n",
	// 1: JSON-RPC next to HTTP (JSON-RPC interactions do not appear in paths)
	"JSIGHT 0.3\nTYPE @p\n{\"a\": 1}\nURL /rpc\n  Protocol json-rpc-2.0\n  Method m\n    Params\n    @p\n    Result\n    [@p]\nGET /h/{x}\n  200 @p\n",
}

// HOpenAPI (C17, structure level): for every ACCEPTED document of the hole family (2 symbolic
// bytes substituted at a cut) the OpenAPI export — openapi.NewOpenAPI, everything ToOpenAPIJson
// does before it calls encoding/json — does not panic and returns an error value or a document
// structure with version 3.0.3, info, paths; every HTTP interaction appears as
// paths[path][method] with responses keyed by a status code or "default"; every {parameter} of
// a path is declared as a required path parameter of the path item; every user type is a
// component.
func HOpenAPI() {
	doc := vC17Docs[vParam("doc", 0)]
	cut, k := vParam("cut", 0), vParam("k", 2)
	if cut > len(doc) {
		cut = len(doc)
	}
	data := append([]byte(doc[:cut]), vBytes("d", k)...)
	if cut+k < len(doc) {
		data = append(data, doc[cut+k:]...)
	}
	j, je := NewJApiFromFile(fs.NewFile(vPath("/vfs/p/root.jst"), data))
	if je != nil {
		vReach("rejected")
		vObserve("rejected")
		return
	}
	oa, err := openapi.NewOpenAPI(j.Catalog())
	if err != nil {
		vReach("export-error")
		vObserve("export-error") // not the text: a recovered run-time error names types the way the run-time does
		return
	}
	vAssert(oa != nil, "c17-neither-error-nor-document")
	vAssert(oa.OpenAPI == "3.0.3", "c17-openapi-version")
	vAssert(oa.Info != nil, "c17-no-info")
	vAssert(oa.Paths != nil, "c17-no-paths")
	cat := j.Catalog()
	nHTTP := 0
	_ = cat.Interactions.Each(func(id catalog.InteractionID, v catalog.Interaction) error {
		hi, ok := v.(*catalog.HTTPInteraction)
		if !ok {
			return nil
		}
		nHTTP++
		path := string(hi.PathVal)
		pi := oa.Paths[path]
		vAssert(pi != nil, "c17-interaction-path-missing-in-paths")
		var op *openapi.Operation
		switch hi.HttpMethod {
		case catalog.GET:
			op = pi.Get
		case catalog.POST:
			op = pi.Post
		case catalog.PUT:
			op = pi.Put
		case catalog.PATCH:
			op = pi.Patch
		case catalog.DELETE:
			op = pi.Delete
		}
		vAssert(op != nil, "c17-interaction-method-missing-in-path-item")
		vAssert(op.Responses != nil && len(*op.Responses) > 0, "c17-operation-without-responses")
		for code := range *op.Responses {
			c := string(code)
			ok := c == "default" || (len(c) == 3 && c[0] >= '1' && c[0] <= '5' && c[1] >= '0' && c[1] <= '9' && c[2] >= '0' && c[2] <= '9')
			vAssert(ok, "c17-response-key-is-neither-a-status-code-nor-default")
		}
		// every response of the interaction is there
		for _, r := range hi.Responses {
			ok := false
			for code := range *op.Responses {
				if string(code) == r.Code {
					ok = true
				}
			}
			vAssert(ok, "c17-response-missing-in-operation")
		}
		// every {parameter} of the path: a required path parameter of the path item
		for _, seg := range strings.Split(path, "/") {
			if len(seg) >= 2 && seg[0] == '{' && seg[len(seg)-1] == '}' {
				name := seg[1 : len(seg)-1]
				found := false
				for _, p := range pi.Parameters {
					if p.Name == name && p.In == openapi.ParameterLocationPath {
						found = true
						vAssert(p.Required, "c17-path-parameter-not-required")
						vAssert(p.Schema != nil, "c17-path-parameter-without-schema")
					}
				}
				vAssert(found, "c17-path-parameter-not-declared")
			}
		}
		return nil
	})
	// every user type is a component
	if cat.UserTypes.Len() > 0 {
		vAssert(oa.Components != nil, "c17-no-components")
		_ = cat.UserTypes.Each(func(name string, _ *catalog.UserType) error {
			so, ok := oa.Components.Schemas[name[1:]]
			vAssert(ok && so != nil, "c17-user-type-is-not-a-component")
			return nil
		})
	}
	// the bytes: ToOpenAPIJson / ToOpenAPIJsonIndent (the real methods; encoding/json modelled over
	// interpreter values in the engine) succeed, are valid JSON, agree up to whitespace, and every
	// $ref names a schema of components
	ob, err1 := j.ToOpenAPIJson()
	oi, err2 := j.ToOpenAPIJsonIndent()
	vAssert(err1 == nil && err2 == nil, "c17-marshal-of-the-document-fails")
	vAssert(vJSONValid(ob), "c17-openapi-json-invalid")
	o := string(ob)
	vAssert(vJSONCompact(oi) == o, "c17-openapi-json-and-indent-differ-beyond-whitespace")
	vAssert(strings.HasPrefix(o, "{\"openapi\":\"3.0.3\",\"info\":{"), "c17-openapi-and-info-first")
	const refKey = "\"$ref\":\"#/components/schemas/"
	for rest := o; ; {
		i := strings.Index(rest, refKey)
		if i < 0 {
			break
		}
		rest = rest[i+len(refKey):]
		name := rest[:strings.IndexByte(rest, '"')]
		_, ok := cat.UserTypes.Get("@" + name)
		vAssert(ok, "c17-ref-does-not-resolve-to-a-component")
		ci := strings.Index(o, "\"components\":{\"schemas\":{")
		vAssert(ci >= 0 && strings.Contains(o[ci:], "\""+name+"\":"), "c17-ref-target-missing-in-components")
	}
	vReach("exported")
	vObserve("ok", nHTTP, len(oa.Paths), len(ob))
}

func init() { vRegister("HOpenAPI", HOpenAPI) }
