package kit

// HNewJapi (C01-c): the public entry point on a root path that is missing, a
// directory, empty, or holds n arbitrary bytes.
func HNewJapi() {
	kind := vParam("kind", 0)
	vDir(vPath("/vfs/p"))
	vDir(vPath("/vfs/p/dir"))
	vFile(vPath("/vfs/p/empty.jst"), []byte{})
	path := vPath("/vfs/p/missing.jst")
	switch kind {
	case 1:
		path = vPath("/vfs/p/dir")
	case 2:
		path = vPath("/vfs/p/empty.jst")
	case 3:
		vFile(vPath("/vfs/p/root.jst"), vBytes("d", vParam("n", 2)))
		path = vPath("/vfs/p/root.jst")
	}
	j, je := NewJapi(path)
	if je != nil {
		vAssert(je.File != nil, "c01-error-without-file")
		vObserve("err", int(je.Index))
		vReach("error")
		return
	}
	vAssert(j.Catalog() != nil, "c01-no-error-and-no-catalog")
	vObserve("ok", j.Title())
	vReach("catalog")
}

func init() { vRegister("HNewJapi", HNewJapi) }
