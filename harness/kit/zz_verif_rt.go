// Code shared by all harness packages (copied into each package by gen_rt.sh
// with the package clause rewritten). The engine intercepts these functions by
// name; the bodies below are the NATIVE semantics used when a solver model is
// replayed as an ordinary Go test: values come from the JSON file named by
// $VERIF_CEX (map name -> integer).
package kit

import (
	"bytes"
	"encoding/json"
	"fmt"
	"os"
	"path/filepath"
	"sort"
	"strings"
	"unicode/utf8"
)

var vNative struct {
	loaded  bool
	in      map[string]uint64
	Obs     []string
	Reached map[string]bool
	Failed  []string
	root    string
}

type vAssumeFailed struct{}

var vHarnesses = map[string]func(){}

func vRegister(name string, f func()) { vHarnesses[name] = f }

func vLoad() {
	if vNative.loaded {
		return
	}
	vNative.loaded = true
	vNative.in = map[string]uint64{}
	vNative.Reached = map[string]bool{}
	if p := os.Getenv("VERIF_CEX"); p != "" {
		b, err := os.ReadFile(p)
		if err != nil {
			panic(err)
		}
		if err := json.Unmarshal(b, &vNative.in); err != nil {
			panic(err)
		}
	}
}

// vSetInputs (native only) installs an assignment and clears the logs.
func vSetInputs(m map[string]uint64) {
	vNative.loaded = true
	vNative.in = m
	vNative.Obs = nil
	vNative.Failed = nil
	vNative.Reached = map[string]bool{}
	vNative.root = ""
}

func vByte(name string) byte { vLoad(); return byte(vNative.in[name]) }

func vBytes(name string, n int) []byte {
	vLoad()
	b := make([]byte, n)
	for i := range b {
		b[i] = byte(vNative.in[fmt.Sprintf("%s_%d", name, i)])
	}
	return b
}

func vInt(name string, lo, hi int) int {
	vLoad()
	v := int(int64(vNative.in[name]))
	if v < lo || v > hi {
		panic(vAssumeFailed{})
	}
	return v
}

// vParam: concrete harness parameter (bound), chosen by the check driver.
func vParam(name string, def int) int {
	vLoad()
	if v, ok := vNative.in["param:"+name]; ok {
		return int(int64(v))
	}
	return def
}

func vBool(name string) bool { vLoad(); return vNative.in[name]&1 == 1 }

func vAssume(c bool) {
	if !c {
		panic(vAssumeFailed{})
	}
}

func vAssert(c bool, id string) {
	if !c {
		vNative.Failed = append(vNative.Failed, id)
		panic("verif assertion failed: " + id)
	}
}

func vReach(id string) { vLoad(); vNative.Reached[id] = true }

func vObserve(tag string, vals ...any) {
	parts := []string{tag}
	for _, v := range vals {
		switch v := v.(type) {
		case string:
			if vNative.root != "" {
				v = strings.ReplaceAll(v, vNative.root, "/vfs")
			}
			parts = append(parts, fmt.Sprintf("%q", v))
		case []byte:
			parts = append(parts, fmt.Sprintf("%q", string(v)))
		case nil:
			parts = append(parts, "nil")
		default:
			parts = append(parts, fmt.Sprint(v))
		}
	}
	vNative.Obs = append(vNative.Obs, strings.Join(parts, " "))
}

// vSymbolic reports whether the harness runs inside the symbolic engine.
func vSymbolic() bool { return false }

// vRootDir: the directory that stands for "/vfs" natively.
func vRootDir() string {
	if vNative.root == "" {
		d, err := os.MkdirTemp("", "verifvfs")
		if err != nil {
			panic(err)
		}
		vNative.root = d
	}
	return vNative.root
}

// vPath maps a virtual absolute path ("/vfs/...") to the path used in this run.
func vPath(p string) string {
	if vSymbolic() {
		return p
	}
	// no cleaning: a path is handed on exactly as the harness spells it ("/./", "//", "/x/../")
	return vRootDir() + strings.TrimPrefix(p, "/vfs")
}

func vFile(name string, content []byte) {
	if err := os.MkdirAll(filepath.Dir(name), 0o755); err != nil {
		panic(err)
	}
	if err := os.WriteFile(name, content, 0o644); err != nil {
		panic(err)
	}
}

func vDir(name string) {
	if err := os.MkdirAll(name, 0o755); err != nil {
		panic(err)
	}
}

// vCorpusFile returns the i-th .jst file under /repo/testdata (sorted by path).
func vCorpusFile(i int) (string, []byte) {
	var files []string
	filepath.Walk("/repo/testdata", func(p string, info os.FileInfo, err error) error {
		if err == nil && !info.IsDir() && strings.HasSuffix(p, ".jst") {
			files = append(files, p)
		}
		return nil
	})
	sort.Strings(files)
	if i < 0 || i >= len(files) {
		return "", nil
	}
	b, err := os.ReadFile(files[i])
	if err != nil {
		panic(err)
	}
	return files[i], b
}

// vMapOrderSite / vMapOrderSites: (engine only) symbolic map iteration order at one range site.
func vMapOrderSite(k int)  {}
func vMapOrderSites() int { return 0 }

// vFSMark brackets the code under test for the native file-system trace: a marker
// system call that strace shows (engine: no-op).
func vFSMark(label string) { _, _ = os.Stat("/verif-fs-mark/" + label + vRootDir()) }

// vJSONValid / vJSONCompact: encoding/json.Valid and Compact on a concrete serialisation
// (engine: run natively on the concrete bytes).
func vJSONValid(b []byte) bool { return json.Valid(b) && utf8.Valid(b) }

func vJSONCompact(b []byte) string {
	var out bytes.Buffer
	if err := json.Compact(&out, b); err != nil {
		return "compact-error:" + err.Error()
	}
	return out.String()
}

// vFSLog: (engine only) the paths handed to the file-system stubs so far.
func vFSLog() []string { return nil }

func vCleanup() {
	if vNative.root != "" {
		os.RemoveAll(vNative.root)
		vNative.root = ""
	}
}
