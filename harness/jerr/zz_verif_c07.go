package jerr

import (
	"github.com/jsightapi/jsight-schema-core/bytes"
	"github.com/jsightapi/jsight-schema-core/fs"
)

// HLocation (C07-a and the NewLocation contract used by other checks):
// content = n arbitrary bytes under one line-ending convention, index arbitrary.
func HLocation() {
	n := vParam("n", 4)
	conv := vParam("conv", 0) // 0: LF only, 1: CRLF only, 2: CR only
	d := vBytes("d", n)
	for i := 0; i < n; i++ {
		switch conv {
		case 0:
			vAssume(d[i] != '\r')
		case 1:
			if d[i] == '\r' {
				vAssume(i+1 < n && d[i+1] == '\n')
			}
			if d[i] == '\n' {
				vAssume(i > 0 && d[i-1] == '\r')
			}
		case 2:
			vAssume(d[i] != '\n')
		}
	}
	idx := vInt("idx", 0, n+2)
	f := fs.NewFile("/vfs/f.jst", d)

	loc := NewLocation(f, bytes.Index(idx)) // must not panic for any index (contract)
	vAssert(loc.File == f, "c07-location-file")
	vAssert(int(loc.Index) == idx, "c07-location-index")
	if n == 0 && idx == 0 {
		// the only position of an empty file
		vAssert(int(loc.Line) == 1 && int(loc.Column) == 1 && loc.Quote == "", "c07-empty-file-position")
	}
	if idx > n || n == 0 {
		vReach("beyond-end")
		vObserve("loc", idx, int(loc.Line), int(loc.Column), loc.Quote)
		return
	}
	if idx == n {
		vReach("at-end") // an error raised at the end of the file: the position after the last byte
	}

	// reference: the line terminator of this convention
	nl := byte('\n')
	if conv == 2 {
		nl = '\r'
	}
	line, lineStart := 1, 0
	for j := 0; j < idx; j++ {
		if d[j] == nl {
			line++
			lineStart = j + 1
		}
	}
	col := idx - lineStart + 1
	end := idx
	for end < n && d[end] != nl {
		end++
	}
	if conv == 1 && end > 0 && end <= n && d[end-1] == '\r' {
		end--
	}
	qb := lineStart
	if qb > end {
		qb = end
	}
	for qb < end && (d[qb] == ' ' || d[qb] == '\t' || d[qb] == '\n' || d[qb] == '\r') {
		qb++
	}
	want := string(d[qb:end])

	vAssert(int(loc.Line) == line, "c07-line")
	vAssert(int(loc.Column) == col, "c07-column")
	// the quote is the text of the line, leading blanks dropped (an all-blank line may be kept as it is)
	vAssert(loc.Quote == want || (want == "" && loc.Quote == string(d[lineStart:end])), "c07-quote")
	vReach("inside")
	vObserve("loc", idx, int(loc.Line), int(loc.Column), loc.Quote)
}

func init() { vRegister("HLocation", HLocation) }

// HLocationLong (C07 / C01): lines longer than the 200-byte quote limit. The file is
// "<2 arbitrary bytes><filler of 'x'>\n<2 arbitrary bytes>zz\n": the length of the
// first line (symbolic over 198..203 and 320, concretised by full enumeration) and
// the index (symbolic choice among 30 boundary positions) are arbitrary; NewLocation
// must not panic, line/column are exact, the quote is the line, cut to 197 bytes + "..."
// when the line is longer than 200 bytes.
func HLocationLong() {
	lens := []int{198, 199, 200, 201, 202, 203, 320}
	lsel := vInt("len", 0, len(lens)-1)
	ll := lens[0]
	for k := range lens {
		if lsel == k {
			ll = lens[k]
			break
		}
	}
	h := vBytes("h", 2)
	t := vBytes("t", 2)
	for _, b := range []byte{h[0], h[1], t[0], t[1]} {
		vAssume(b != '\n' && b != '\r')
	}
	d := []byte{h[0], h[1]}
	for len(d) < ll {
		d = append(d, 'x')
	}
	d = append(d, '\n', t[0], t[1], 'z', 'z', '\n')
	n := len(d)
	// the index: symbolic choice among the positions around every boundary of the computation
	// (file start, the 100-byte half window, the 197/200-byte cut, the line end, the second
	// line, the end of the file and past it); made concrete per path
	var cands []int
	for _, c := range []int{0, 100, 197, ll, n} {
		for k := c - 3; k <= c+3; k++ {
			if k >= 0 && k <= n+2 {
				cands = append(cands, k)
			}
		}
	}
	sel := vInt("idx", 0, len(cands)-1)
	idx := 0
	for k := range cands {
		if sel == k {
			idx = cands[k]
			break
		}
	}
	f := fs.NewFile("/vfs/f.jst", d)
	loc := NewLocation(f, bytes.Index(idx))
	vAssert(int(loc.Index) == idx, "c07-location-index")
	if idx >= n {
		vReach("beyond-end")
		return
	}
	line, ls := 1, 0
	if idx > ll {
		line, ls = 2, ll+1
	}
	end := ll
	if line == 2 {
		end = n - 1
	}
	vAssert(int(loc.Line) == line, "c07-line")
	vAssert(int(loc.Column) == idx-ls+1, "c07-column")
	trim := func(b []byte) string {
		i := 0
		for i < len(b) && (b[i] == ' ' || b[i] == '\t') {
			i++
		}
		return string(b[i:])
	}
	want := trim(d[ls:end])
	if end-ls > 200 {
		want = trim(d[ls:ls+197]) + "..."
	}
	vAssert(loc.Quote == want, "c07-quote-long-line")
	vReach("inside")
	vObserve("loc", idx, int(loc.Line), int(loc.Column), len(loc.Quote))
}

func init() { vRegister("HLocationLong", HLocationLong) }
