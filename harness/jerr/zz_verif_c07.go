package jerr

import (
	"github.com/jsightapi/jsight-schema-core/bytes"
	"github.com/jsightapi/jsight-schema-core/fs"
)

// HLocation (C07-a and the NewLocation contract used by other checks):
// content = n arbitrary bytes under one line-ending convention, index arbitrary.
func HLocation() {
	n := vParam("n", 4)
	conv := vParam("conv", 0) // 0: LF only, 1: CRLF only, 2: CR only
	d := vBytes("d", n)
	for i := 0; i < n; i++ {
		switch conv {
		case 0:
			vAssume(d[i] != '\r')
		case 1:
			if d[i] == '\r' {
				vAssume(i+1 < n && d[i+1] == '\n')
			}
			if d[i] == '\n' {
				vAssume(i > 0 && d[i-1] == '\r')
			}
		case 2:
			vAssume(d[i] != '\n')
		}
	}
	idx := vInt("idx", 0, n+2)
	f := fs.NewFile("/vfs/f.jst", d)

	loc := NewLocation(f, bytes.Index(idx)) // must not panic for any index (contract)
	vAssert(loc.File == f, "c07-location-file")
	vAssert(int(loc.Index) == idx, "c07-location-index")
	if idx > n || n == 0 {
		vReach("beyond-end")
		vObserve("loc", idx, int(loc.Line), int(loc.Column), loc.Quote)
		return
	}
	if idx == n {
		vReach("at-end") // an error raised at the end of the file: the position after the last byte
	}

	// reference: the line terminator of this convention
	nl := byte('\n')
	if conv == 2 {
		nl = '\r'
	}
	line, lineStart := 1, 0
	for j := 0; j < idx; j++ {
		if d[j] == nl {
			line++
			lineStart = j + 1
		}
	}
	col := idx - lineStart + 1
	end := idx
	for end < n && d[end] != nl {
		end++
	}
	if conv == 1 && end > 0 && end <= n && d[end-1] == '\r' {
		end--
	}
	qb := lineStart
	if qb > end {
		qb = end
	}
	for qb < end && (d[qb] == ' ' || d[qb] == '\t' || d[qb] == '\n' || d[qb] == '\r') {
		qb++
	}
	want := string(d[qb:end])

	vAssert(int(loc.Line) == line, "c07-line")
	vAssert(int(loc.Column) == col, "c07-column")
	// the quote is the text of the line, leading blanks dropped (an all-blank line may be kept as it is)
	vAssert(loc.Quote == want || (want == "" && loc.Quote == string(d[lineStart:end])), "c07-quote")
	vReach("inside")
	vObserve("loc", idx, int(loc.Line), int(loc.Column), loc.Quote)
}

func init() { vRegister("HLocation", HLocation) }
