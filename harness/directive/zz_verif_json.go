package directive

// A small JSON reader in plain Go (the identical code runs in the engine and natively): the
// bytes a serialiser returned become a tree that the shape checks of C04 / C17 walk.
// Generated into every harness package from harness/json.go.tmpl (gen_rt.sh).

type vJ struct {
	k    byte // 'o' object, 'a' array, 's' string, 'n' number, 'b' boolean, 'z' null
	s    string
	keys []string
	vals []*vJ
}

func (j *vJ) get(key string) *vJ {
	if j == nil || j.k != 'o' {
		return nil
	}
	for i := range j.keys {
		if j.keys[i] == key {
			return j.vals[i]
		}
	}
	return nil
}

func (j *vJ) is(k byte) bool { return j != nil && j.k == k }

type vJReader struct {
	s  string
	i  int
	ok bool
}

func vJSONParse(s string) (*vJ, bool) {
	r := &vJReader{s: s, ok: true}
	r.ws()
	v := r.value(0)
	r.ws()
	if r.i != len(s) {
		r.ok = false
	}
	return v, r.ok
}

func (r *vJReader) ws() {
	for r.i < len(r.s) && (r.s[r.i] == ' ' || r.s[r.i] == '\n' || r.s[r.i] == '\t' || r.s[r.i] == '\r') {
		r.i++
	}
}

func (r *vJReader) value(depth int) *vJ {
	if !r.ok || r.i >= len(r.s) || depth > 200 {
		r.ok = false
		return nil
	}
	switch c := r.s[r.i]; {
	case c == '{':
		r.i++
		o := &vJ{k: 'o'}
		r.ws()
		if r.i < len(r.s) && r.s[r.i] == '}' {
			r.i++
			return o
		}
		for r.ok {
			r.ws()
			if r.i >= len(r.s) || r.s[r.i] != '"' {
				r.ok = false
				return nil
			}
			key := r.str()
			r.ws()
			if r.i >= len(r.s) || r.s[r.i] != ':' {
				r.ok = false
				return nil
			}
			r.i++
			r.ws()
			v := r.value(depth + 1)
			o.keys, o.vals = append(o.keys, key), append(o.vals, v)
			r.ws()
			if r.i < len(r.s) && r.s[r.i] == ',' {
				r.i++
				continue
			}
			if r.i < len(r.s) && r.s[r.i] == '}' {
				r.i++
				return o
			}
			r.ok = false
		}
		return nil
	case c == '[':
		r.i++
		a := &vJ{k: 'a'}
		r.ws()
		if r.i < len(r.s) && r.s[r.i] == ']' {
			r.i++
			return a
		}
		for r.ok {
			r.ws()
			a.vals = append(a.vals, r.value(depth+1))
			r.ws()
			if r.i < len(r.s) && r.s[r.i] == ',' {
				r.i++
				continue
			}
			if r.i < len(r.s) && r.s[r.i] == ']' {
				r.i++
				return a
			}
			r.ok = false
		}
		return nil
	case c == '"':
		return &vJ{k: 's', s: r.str()}
	case c == 't' && len(r.s)-r.i >= 4 && r.s[r.i:r.i+4] == "true":
		r.i += 4
		return &vJ{k: 'b', s: "true"}
	case c == 'f' && len(r.s)-r.i >= 5 && r.s[r.i:r.i+5] == "false":
		r.i += 5
		return &vJ{k: 'b', s: "false"}
	case c == 'n' && len(r.s)-r.i >= 4 && r.s[r.i:r.i+4] == "null":
		r.i += 4
		return &vJ{k: 'z'}
	case c == '-' || (c >= '0' && c <= '9'):
		st := r.i
		for r.i < len(r.s) {
			d := r.s[r.i]
			if (d >= '0' && d <= '9') || d == '-' || d == '+' || d == '.' || d == 'e' || d == 'E' {
				r.i++
			} else {
				break
			}
		}
		return &vJ{k: 'n', s: r.s[st:r.i]}
	}
	r.ok = false
	return nil
}

func vHex(c byte) int {
	switch {
	case c >= '0' && c <= '9':
		return int(c - '0')
	case c >= 'a' && c <= 'f':
		return int(c-'a') + 10
	case c >= 'A' && c <= 'F':
		return int(c-'A') + 10
	}
	return -1
}

// str reads a JSON string at r.i (which holds the opening quote) and returns its value.
func (r *vJReader) str() string {
	r.i++
	var out []byte
	for r.i < len(r.s) {
		c := r.s[r.i]
		switch {
		case c == '"':
			r.i++
			return string(out)
		case c < 0x20:
			r.ok = false
			return ""
		case c == '\\':
			if r.i+1 >= len(r.s) {
				r.ok = false
				return ""
			}
			e := r.s[r.i+1]
			r.i += 2
			switch e {
			case '"', '\\', '/':
				out = append(out, e)
			case 'b':
				out = append(out, '\b')
			case 'f':
				out = append(out, '\f')
			case 'n':
				out = append(out, '\n')
			case 'r':
				out = append(out, '\r')
			case 't':
				out = append(out, '\t')
			case 'u':
				if r.i+4 > len(r.s) {
					r.ok = false
					return ""
				}
				cp := 0
				for k := 0; k < 4; k++ {
					h := vHex(r.s[r.i+k])
					if h < 0 {
						r.ok = false
						return ""
					}
					cp = cp*16 + h
				}
				r.i += 4
				if cp >= 0xD800 && cp < 0xDC00 && r.i+6 <= len(r.s) && r.s[r.i] == '\\' && r.s[r.i+1] == 'u' {
					lo := 0
					good := true
					for k := 0; k < 4; k++ {
						h := vHex(r.s[r.i+2+k])
						if h < 0 {
							good = false
							break
						}
						lo = lo*16 + h
					}
					if good && lo >= 0xDC00 && lo < 0xE000 {
						cp = 0x10000 + (cp-0xD800)<<10 + (lo - 0xDC00)
						r.i += 6
					}
				}
				out = append(out, string(rune(cp))...)
			default:
				r.ok = false
				return ""
			}
		default:
			out = append(out, c)
			r.i++
		}
	}
	r.ok = false
	return ""
}


// vOp: what a catalog says about one HTTP interaction (expected in the OpenAPI document).
type vOp struct {
	path, method string
	codes        []string
}

type vOAShape struct {
	bad   string
	comps map[string]bool
}

func (c *vOAShape) need(cond bool, rule string) bool {
	if !cond && c.bad == "" {
		c.bad = rule
	}
	return cond
}

func vLower(s string) string {
	b := []byte(s)
	for i := range b {
		if b[i] >= 'A' && b[i] <= 'Z' {
			b[i] += 'a' - 'A'
		}
	}
	return string(b)
}

func vIsCode(s string) bool {
	return s == "default" || (len(s) == 3 && s[0] >= '1' && s[0] <= '5' && s[1] >= '0' && s[1] <= '9' && s[2] >= '0' && s[2] <= '9')
}

// refs: every "$ref" below n is "#/components/schemas/<a key of components.schemas>".
func (c *vOAShape) refs(n *vJ, depth int) {
	if n == nil || depth > 150 || c.bad != "" {
		return
	}
	if n.k == 'o' {
		for i, k := range n.keys {
			if k == "$ref" {
				v := n.vals[i]
				const pre = "#/components/schemas/"
				if c.need(v.is('s') && len(v.s) > len(pre) && v.s[:len(pre)] == pre, "ref-is-not-a-components-schemas-reference") {
					c.need(c.comps[v.s[len(pre):]], "ref-does-not-resolve-to-a-component")
				}
				continue
			}
			c.refs(n.vals[i], depth+1)
		}
	} else if n.k == 'a' {
		for _, v := range n.vals {
			c.refs(v, depth+1)
		}
	}
}

func (c *vOAShape) params(list *vJ, what string, found map[string]bool) {
	if list == nil {
		return
	}
	if !c.need(list.is('a'), what+"-parameters-not-an-array") {
		return
	}
	seen := map[string]bool{}
	for _, p := range list.vals {
		if !c.need(p.is('o'), what+"-parameter-not-an-object") {
			return
		}
		name, in := p.get("name"), p.get("in")
		if !c.need(name.is('s') && name.s != "", what+"-parameter-without-name") ||
			!c.need(in.is('s') && (in.s == "path" || in.s == "query" || in.s == "header" || in.s == "cookie"), what+"-parameter-location") {
			return
		}
		c.need(!seen[in.s+" "+name.s], what+"-parameter-declared-twice")
		seen[in.s+" "+name.s] = true
		c.need(p.get("schema").is('o') || p.get("content").is('o'), what+"-parameter-without-schema")
		if r := p.get("required"); r != nil {
			c.need(r.is('b'), what+"-parameter-required-not-a-boolean")
		}
		if in.s == "path" {
			c.need(p.get("required").is('b') && p.get("required").s == "true", what+"-path-parameter-not-required")
			found[name.s] = true
		}
	}
}

// vOpenAPIShape returns "" if the bytes are an OpenAPI 3.0.3 document in which every expected
// operation appears as paths[path][method] with its responses, every {parameter} of a path is a
// required path parameter, every $ref resolves to components.schemas, every expected type is a
// component and every response key is a status code or "default"; else the first broken rule.
func vOpenAPIShape(doc string, ops []vOp, types []string) string {
	top, ok := vJSONParse(doc)
	if !ok || !top.is('o') {
		return "not-a-json-object"
	}
	c := &vOAShape{comps: map[string]bool{}}
	c.need(top.get("openapi").is('s') && top.get("openapi").s == "3.0.3", "openapi-version")
	info := top.get("info")
	if c.need(info.is('o'), "no-info-object") {
		c.need(info.get("title").is('s'), "info-without-title")
		c.need(info.get("version").is('s'), "info-without-version")
	}
	paths := top.get("paths")
	if !c.need(paths.is('o'), "no-paths-object") {
		return c.bad
	}
	if comp := top.get("components"); comp != nil {
		if c.need(comp.is('o'), "components-not-an-object") {
			if sc := comp.get("schemas"); sc != nil && c.need(sc.is('o'), "components-schemas-not-an-object") {
				for i, k := range sc.keys {
					c.comps[k] = true
					c.need(sc.vals[i].is('o'), "component-schema-not-an-object")
				}
			}
		}
	}
	for _, t := range types {
		c.need(c.comps[t], "user-type-is-not-a-component")
	}
	c.refs(top, 0)
	for i, p := range paths.keys {
		item := paths.vals[i]
		if !c.need(len(p) > 0 && p[0] == '/', "path-key-does-not-start-with-a-slash") || !c.need(item.is('o'), "path-item-not-an-object") {
			return c.bad
		}
		itemParams := map[string]bool{}
		c.params(item.get("parameters"), "path-item", itemParams)
		nOps := 0
		for k, key := range item.keys {
			switch key {
			case "get", "put", "post", "delete", "patch", "options", "head", "trace":
				nOps++
				op := item.vals[k]
				if !c.need(op.is('o'), "operation-not-an-object") {
					return c.bad
				}
				found := map[string]bool{}
				for n := range itemParams {
					found[n] = true
				}
				c.params(op.get("parameters"), "operation", found)
				// every {parameter} of the path — a whole segment in braces, which is what the
				// language calls a path parameter — is a required path parameter
				for s := 0; s < len(p); {
					e := s
					for e < len(p) && p[e] != '/' {
						e++
					}
					if e-s >= 2 && p[s] == '{' && p[e-1] == '}' {
						c.need(found[p[s+1:e-1]], "path-parameter-not-declared")
					}
					s = e + 1
				}
				rs := op.get("responses")
				if c.need(rs.is('o') && len(rs.keys) > 0, "operation-without-responses") {
					for ri, code := range rs.keys {
						c.need(vIsCode(code), "response-key-is-neither-a-status-code-nor-default")
						r := rs.vals[ri]
						if c.need(r.is('o'), "response-not-an-object") && r.get("$ref") == nil {
							c.need(r.get("description").is('s'), "response-without-description")
							if ct := r.get("content"); ct != nil {
								c.need(ct.is('o'), "response-content-not-an-object")
							}
							if h := r.get("headers"); h != nil {
								c.need(h.is('o'), "response-headers-not-an-object")
							}
						}
					}
				}
				if rb := op.get("requestBody"); rb != nil {
					// (OAS 3.0.3 wants a content map here; the property does not state it, and the
					// repository's snapshots omit it for `Request empty`: not demanded)
					c.need(rb.is('o'), "request-body-not-an-object")
				}
				if tg := op.get("tags"); tg != nil && c.need(tg.is('a'), "operation-tags-not-an-array") {
					for _, t := range tg.vals {
						c.need(t.is('s'), "operation-tag-not-a-string")
					}
				}
				if id := op.get("operationId"); id != nil {
					c.need(id.is('s') && id.s != "", "operation-id-not-a-string")
				}
			case "parameters", "summary", "description", "servers", "$ref":
			default:
				c.need(false, "path-item-with-an-unknown-key")
			}
		}
		c.need(nOps > 0, "path-item-without-operation")
	}
	for _, o := range ops {
		item := paths.get(o.path)
		if !c.need(item != nil, "interaction-path-missing-in-paths") {
			break
		}
		op := item.get(vLower(o.method))
		if !c.need(op != nil, "interaction-method-missing-in-path-item") {
			break
		}
		for _, code := range o.codes {
			c.need(op.get("responses").get(code) != nil, "response-missing-in-operation")
		}
	}
	return c.bad
}
