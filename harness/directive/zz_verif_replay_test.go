package directive

import (
	"encoding/json"
	"fmt"
	"os"
	"testing"
)

type vCase struct {
	Harness string            `json:"harness"`
	In      map[string]uint64 `json:"in"`
}

type vResult struct {
	Status  string   `json:"status"` // ok | panic | assert-fail | assume-fail
	Msg     string   `json:"msg"`
	Obs     []string `json:"obs"`
	Reached []string `json:"reached"`
}

func vRunCase(c vCase) (res vResult) {
	f, ok := vHarnesses[c.Harness]
	if !ok {
		return vResult{Status: "no-such-harness"}
	}
	vSetInputs(c.In)
	defer func() {
		if r := recover(); r != nil {
			switch r := r.(type) {
			case vAssumeFailed:
				res.Status = "assume-fail"
			default:
				if len(vNative.Failed) > 0 {
					res.Status = "assert-fail"
					res.Msg = vNative.Failed[0]
				} else {
					res.Status = "panic"
					if e, ok := r.(error); ok {
						res.Msg = e.Error()
					} else {
						res.Msg = fmt.Sprint(r)
					}
				}
			}
		}
		res.Obs = vNative.Obs
		for k := range vNative.Reached {
			res.Reached = append(res.Reached, k)
		}
		vCleanup()
	}()
	f()
	res.Status = "ok"
	return res
}

// TestVerifReplay runs the cases of $VERIF_REPLAY natively and writes the
// outcomes to $VERIF_REPLAY_OUT.
func TestVerifReplay(t *testing.T) {
	p := os.Getenv("VERIF_REPLAY")
	if p == "" {
		t.Skip("no VERIF_REPLAY")
	}
	b, err := os.ReadFile(p)
	if err != nil {
		t.Fatal(err)
	}
	var cases []vCase
	if err := json.Unmarshal(b, &cases); err != nil {
		t.Fatal(err)
	}
	out := make([]vResult, len(cases))
	for i, c := range cases {
		out[i] = vRunCase(c)
	}
	ob, _ := json.Marshal(out)
	if err := os.WriteFile(os.Getenv("VERIF_REPLAY_OUT"), ob, 0o644); err != nil {
		t.Fatal(err)
	}
}
