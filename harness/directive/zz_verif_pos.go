package directive

// VKeywordBegin: the index of the directive's keyword in its file (the harness uses it only to
// cut a corpus document into its top-level blocks, never to judge a result).
func VKeywordBegin(d *Directive) int { return int(d.keywordCoords.begin) }
