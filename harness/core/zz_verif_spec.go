package core

// Frozen specification of the JSight API 0.3 context table (DESIGN.md B2),
// hand-transcribed; never derived from directive/enumeration.go at run time.
// Kind numbering = the order of the language's directive list.

const (
	kJSIGHT = iota
	kINFO
	kTitle
	kVersion
	kDescription
	kSERVER
	kBaseUrl
	kURL
	kGET
	kPOST
	kPUT
	kPATCH
	kDELETE
	kBody
	kRequest
	kResponse
	kPath
	kHeaders
	kQuery
	kTYPE
	kENUM
	kMACRO
	kPASTE
	kINCLUDE
	kProtocol
	kMethod
	kParams
	kResult
	kTAG
	kTags
	kOperationId
	kCount
)

var vSpecRoot [kCount]uint8
var vSpecChild [kCount * kCount]uint8 // [parent*kCount+child]

func init() {
	for _, k := range []int{kJSIGHT, kINFO, kSERVER, kURL, kGET, kPOST, kPUT, kPATCH, kDELETE, kTYPE, kENUM, kMACRO, kPASTE, kTAG} {
		vSpecRoot[k] = 1
	}
	set := func(p int, cs ...int) {
		for _, c := range cs {
			vSpecChild[p*kCount+c] = 1
		}
	}
	set(kURL, kGET, kPOST, kPUT, kPATCH, kDELETE, kPath, kPASTE, kProtocol, kMethod, kTags)
	for _, m := range []int{kGET, kPOST, kPUT, kPATCH, kDELETE} {
		set(m, kDescription, kRequest, kResponse, kPath, kQuery, kPASTE, kTags, kOperationId)
	}
	set(kResponse, kBody, kHeaders, kPASTE)
	set(kRequest, kBody, kHeaders, kPASTE)
	set(kINFO, kTitle, kVersion, kDescription, kPASTE)
	set(kSERVER, kBaseUrl, kPASTE)
	set(kMethod, kDescription, kParams, kResult, kTags)
	set(kTAG, kDescription)
	set(kMACRO, kINFO, kTitle, kVersion, kDescription, kSERVER, kBaseUrl, kURL, kGET, kPOST, kPUT, kPATCH, kDELETE,
		kBody, kRequest, kResponse, kPath, kHeaders, kQuery, kTYPE, kENUM, kPASTE)
}

func vSpecIsHTTPMethod(k int) bool { return k >= kGET && k <= kDELETE }
