package core

import (
	"sort"
	"strings"
)

// vC15Blocks: independent top-level blocks of an accepted document. The types refer to each
// other (in both directions), to an enum, and are used by the interactions; the tag is used
// by a method; so every block is used from a block that may come before or after it.
var vC15Blocks = []string{
	"TAG @t // the tag\n  Description\n    tag text\n",
	"TYPE @a // first type\n{\n  \"b\": @b,\n  \"e\": 1 // {enum: @e}\n}\n",
	"TYPE @b\n{\n  \"a\": @a, // {optional: true}\n  \"n\": 5 // {min: 2}\n}\n",
	"ENUM @e // the enum\n[\n  1, // one\n  2\n]\n",
	"URL /u\n  GET // read\n    Tags @t\n    200 @a\n  PUT\n    Request @b\n    204 empty\n",
	"POST /p/{id}\n  Description\n    create\n  Request\n    Headers\n    {\"h\": \"v\"}\n    Body @b\n  201 [@a]\n",
	"SERVER @s // prod\n  BaseUrl \"https://x\"\n",
	"INFO\n  Title \"T\"\n  Version 1\n",
}

// vEntities groups digest lines into entities (a line plus its indented followers).
func vEntities(d []string) []string {
	var out []string
	for _, l := range d {
		if strings.HasPrefix(l, "tag ") {
			// the interactions inside a tag follow the text order: compared as a set
			if i, j := strings.LastIndex(l, "["), strings.LastIndex(l, "]"); i >= 0 && j > i {
				ids := strings.Split(l[i+1:j], ",")
				sort.Strings(ids)
				l = l[:i+1] + strings.Join(ids, ",") + l[j:]
			}
		}
		if strings.HasPrefix(l, "  ") && len(out) > 0 {
			out[len(out)-1] += "\n" + l
		} else {
			out = append(out, l)
		}
	}
	return out
}

// HPermute (C15): the blocks of the document in the written order vs in a symbolic
// permutation (Lehmer code over the first n blocks; JSIGHT stays first; with edges=1 the
// references between the blocks are symbolic as well): both accepted,
// the same entities with the same content (deep digest, compared as multisets), and
// inside the sections of types, enums, servers and interactions the entries follow the
// text order of the permuted document.
func HPermute() {
	n := vParam("n", 6)
	blocks := append([]string(nil), vC15Blocks[:n]...)
	switch vParam("family", 0) {
	case 1:
		// tags: a declared tag used before / after its TAG block, a path tag that exists only
		// from the first method of that path on, optionally named by a Tags directive
		blocks = []string{
			"GET /cats/b\n  200 any\n",
			"GET /dogs\n  Tags @t\n  200 any\n",
			"TAG @t // declared\n  Description\n    about t\n",
			"POST /cats\n  Tags @t\n  201 any\n",
			"DELETE /birds/{id}\n  204 empty\n",
		}
		if vBool("namesPathTag") {
			blocks[1] = "GET /dogs\n  Tags @cats\n  200 any\n"
		}
		if vBool("declaredLikePath") {
			blocks[4] = "TAG @cats // cats\n"
		}
		n = len(blocks)
	case 2:
		// a regex type referred to by two types and a body: the EXAMPLES are compared too (vEmit)
		blocks = []string{
			"TYPE @id regex\n/[a-z]{3}/\n",
			"TYPE @person\n{\n  \"id\": @id\n}\n",
			"TYPE @pet\n{\n  \"id\": @id\n}\n",
			"GET /p\n  200 @person\n",
			"GET /q\n  200\n  {\"tag\": @id}\n",
		}
		n = len(blocks)
	}
	if vParam("rpc", 0) == 1 {
		// a JSON-RPC method whose Params inherit from a type (allOf) and whose Result is an array of a type
		if n > 4 {
			blocks[4] = strings.Replace(blocks[4], "    Tags @t\n", "", 1) // the TAG block is gone
		}
		blocks[0] = "URL /rpc\n  Protocol json-rpc-2.0\n  Method m // call\n    Params\n    { // {allOf: \"@b\"}\n      \"z\": 1\n    }\n    Result\n    [@a]\n"
	}
	if vParam("edges", 0) == 1 {
		// which block refers to which is symbolic too: @a -> @b, @b -> @a (both: a cycle),
		// @a -> ENUM @e, the stand-alone method -> @b / @a
		ab, ba, ae, pb := vBool("ab"), vBool("ba"), vBool("ae"), vBool("pb")
		ta := "TYPE @a // first type\n{\n"
		if ab {
			ta += "  \"b\": @b, // {optional: true}\n"
		}
		if ae {
			ta += "  \"e\": 1, // {enum: @e}\n"
		}
		ta += "  \"k\": \"v\"\n}\n"
		tb := "TYPE @b\n{\n"
		if ba {
			tb += "  \"a\": @a, // {optional: true}\n"
		}
		tb += "  \"n\": 5 // {min: 2}\n}\n"
		blocks[1], blocks[2] = ta, tb
		if n > 5 && !pb {
			blocks[5] = strings.Replace(strings.Replace(blocks[5], "Body @b", "Body @a", 1), "201 [@a]", "201 [@b]", 1)
		}
	}
	order := make([]int, n)
	for i := range order {
		order[i] = i
	}
	for i := 0; i < n-1; i++ {
		sel := vInt("p"+string(rune('0'+i)), 0, n-1-i)
		j := i
		for k := 0; k <= n-1-i; k++ {
			if sel == k {
				j = i + k
				break
			}
		}
		order[i], order[j] = order[j], order[i]
	}
	docA := "JSIGHT 0.3\n" + strings.Join(blocks, "")
	docB := "JSIGHT 0.3\n"
	for _, i := range order {
		docB += blocks[i]
	}
	cA, jeA := vBuildText(docA)
	cB, jeB := vBuildText(docB)
	if vParam("family", 0) == 1 {
		// the written order may itself be a rejected document: then every order is
		vAssert((jeA == nil) == (jeB == nil), "c15-verdict-depends-on-the-order-of-blocks")
		if jeA != nil {
			vAssert(vMsgClass(jeA) == vMsgClass(jeB), "c15-error-class-depends-on-the-order-of-blocks")
			vReach("permuted")
			vObserve("rejected", jeA.Msg)
			return
		}
	}
	vAssert(jeA == nil, "c15-fixture-rejected")
	vAssert(jeB == nil, "c15-permuted-document-rejected")
	dA, dB := vDigestDeep(cA), vDigestDeep(cB)
	if vParam("family", 0) == 2 {
		dA, dB = vEmit(cA), vEmit(cB)
	}
	eA, eB := vEntities(dA), vEntities(dB)
	sA, sB := append([]string(nil), eA...), append([]string(nil), eB...)
	sort.Strings(sA)
	sort.Strings(sB)
	vAssert(len(sA) == len(sB), "c15-permutation-changes-the-number-of-entities")
	for i := range sA {
		vAssert(sA[i] == sB[i], "c15-permutation-changes-an-entity")
	}
	// order inside a section follows the text: the relative order of two entities of one
	// section in B is the order of their blocks in the permutation
	pos := make([]int, n) // block -> position in B
	for p, b := range order {
		pos[b] = p
	}
	section := func(prefix string, e []string) []string {
		var out []string
		for _, l := range e {
			if strings.HasPrefix(l, prefix) {
				out = append(out, strings.SplitN(l, " ", 3)[1])
			}
		}
		return out
	}
	types := section("type ", eB)
	if len(types) == 2 && vParam("family", 0) == 0 {
		vAssert((types[0] == "@a") == (pos[1] < pos[2]), "c15-types-not-in-text-order")
	}
	https := section("http ", eB)
	// "http" entities: key is "http GET /u" (3 words): take the path word
	var paths []string
	for _, l := range eB {
		if strings.HasPrefix(l, "http ") {
			paths = append(paths, strings.Fields(l)[3])
		}
	}
	_ = https
	if len(paths) == 3 && vParam("family", 0) == 0 {
		uFirst := paths[0] == "/u"
		vAssert(uFirst == (pos[4] < pos[5]), "c15-interactions-not-in-text-order")
	}
	vReach("permuted")
	vObserve("same", len(sA))
}

func init() { vRegister("HPermute", HPermute) }
