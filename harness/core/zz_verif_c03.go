package core

import (
	"strings"

	"github.com/jsightapi/jsight-api-core/jerr"
)

const vC03Base = "JSIGHT 0.3\n" +
	"INFO\n  Title \"T\"\n  Version 1\n  Description\n    info text\n" +
	"SERVER @s\n  BaseUrl \"https://h\"\n" +
	"TAG @t\n" +
	"TYPE @cat\n{\"id\": 1}\n" +
	"ENUM @e\n[1, 2]\n" +
	"MACRO @m\n(\n  404 any\n)\n" +
	"URL /cats\n" +
	"  GET\n    OperationId getCats\n    Description\n      d\n    Query\n    {\"q\": 1}\n    Request\n      Headers\n      {\"H\": \"v\"}\n      Body any\n    200 @cat\n" +
	"  POST\n    200 any\n" +
	"URL /cats/{id}\n  PUT\n    200 any\n    PASTE @m\n" +
	"URL /rpc\n  Protocol json-rpc-2.0\n  Method foo\n    Params\n    {}\n"

type vFault struct {
	name   string
	text   string // the injected text (a block of whole lines)
	marker string // substring of text on the keyword line of the offending directive (its LAST occurrence in text)
	msg    string // message class (substring of the error message)
	after  string // "" = appended at the end (may also live in an INCLUDEd file or a MACRO body); otherwise inserted right after the line starting with this text
	where  int    // bit 1: may be placed in an included file; bit 2: may be placed in a macro body
}

var vC03Faults = []vFault{
	{"dup-interaction", "GET /cats\n  200 any\n", "GET /cats", jerr.MethodIsAlreadyDefinedInResource, "", 3},
	{"dup-type", "TYPE @cat\n{}\n", "TYPE @cat", "has already been declared", "", 3},
	{"dup-enum", "ENUM @e\n[3]\n", "ENUM @e", "has already been declared", "", 3},
	{"dup-server", "SERVER @s\n  BaseUrl \"x\"\n", "SERVER @s", "has already been declared", "", 3},
	{"dup-tag", "TAG @t\n", "TAG @t", "has already been declared", "", 1},
	{"dup-macro", "MACRO @m\n(\n  500 any\n)\n", "MACRO @m", "has already been declared", "", 1},
	{"dup-operation-id", "GET /dup\n  OperationId getCats\n  200 any\n", "OperationId getCats", "has already been defined", "", 3},
	{"similar-paths", "GET /cats/{other}\n  200 any\n", "GET /cats/{other}", "ambiguous paths", "", 3},
	{"dup-path-parameter", "GET /d/{a}/{a}\n  200 any\n", "GET /d/{a}/{a}", jerr.PathParameterIsDuplicatedInThePath, "", 3},
	{"second-title", "  Title \"T2\"\n", "Title \"T2\"", jerr.NotUniqueDirective, "  Title \"T\"", 0},
	{"second-version", "  Version 2\n", "Version 2", jerr.NotUniqueDirective, "  Version 1", 0},
	{"second-info-description", "  Description\n    again\n", "Description", jerr.NotUniqueDirective, "    info text", 0},
	{"second-query", "    Query\n    {\"z\": 2}\n", "Query", jerr.NotUniqueDirective, "    {\"q\": 1}", 0},
	{"second-request-body", "      Body any\n", "Body any", jerr.NotUniqueDirective, "      Body any", 0},
	{"second-headers", "      Headers\n      {\"I\": \"w\"}\n", "Headers", jerr.NotUniqueDirective, "      {\"H\": \"v\"}", 0},
	{"second-base-url", "  BaseUrl \"y\"\n", "BaseUrl \"y\"", jerr.DirectiveBaseURLAlreadyDefined, "  BaseUrl \"https://h\"", 0},
	{"second-protocol", "  Protocol json-rpc-2.0\n", "Protocol", jerr.NotUniqueDirective, "  Protocol json-rpc-2.0", 0},
	{"undefined-type", "GET /ut\n  200 @nope\n", "200 @nope", "not found", "", 3},
	{"undefined-tag", "GET /tg\n  Tags @nope\n  200 any\n", "Tags @nope", jerr.TagNotFound, "", 3},
	{"undefined-macro", "PASTE @nope\n", "PASTE @nope", jerr.MacroNotFound, "", 1},
	{"server-without-name", "SERVER\n  BaseUrl \"x\"\n", "SERVER", jerr.RequiredParameterNotSpecified, "", 3},
	{"tag-without-name", "TAG\n", "TAG", jerr.RequiredParameterNotSpecified, "", 1},
	{"operation-id-without-name", "GET /noid\n  OperationId\n  200 any\n", "OperationId", jerr.RequiredParameterNotSpecified, "", 3},
	{"annotated-url", "URL /ann // note\n  GET\n    200 any\n", "URL /ann", jerr.AnnotationIsForbiddenForTheDirective, "", 3},
	{"annotated-query", "GET /aq\n  Query // note\n  {\"a\": 1}\n  200 any\n", "Query", jerr.AnnotationIsForbiddenForTheDirective, "", 3},
	{"jsight-repeated", "JSIGHT 0.3\n", "JSIGHT 0.3", "JSIGHT", "", 0},
	{"response-type-and-notation", "GET /tn\n  200 @cat jsight\n", "200 @cat jsight", "cannot be declared simultaneously", "", 3},
	{"request-headers-without-body", "GET /rh\n  Request\n    Headers\n    {\"h\": \"v\"}\n  200 any\n", "Request", jerr.UndefinedRequestBodyForResource, "", 3},
	{"response-headers-without-body", "GET /hb\n  200\n    Headers\n    {\"h\": \"v\"}\n", "200", "undefined response body", "", 3},
	{"second-tag-description", "  Description\n    one\n  Description\n    again\n", "Description", jerr.NotUniqueDirective, "TAG @t", 0},
	{"second-method-description", "    Description\n      again\n", "Description", jerr.NotUniqueDirective, "      d", 0},
	{"dup-url-path", "URL /cats\n  DELETE\n    201 any\n", "URL /cats", "has already been defined", "", 3},
	{"dup-interaction-standalone-vs-url", "POST /cats\n  201 any\n", "POST /cats", jerr.MethodIsAlreadyDefinedInResource, "", 3},
	{"dup-jsonrpc-method", "URL /rpc2\n  Protocol json-rpc-2.0\n  Method foo\n    Params\n    {}\n  Method foo\n    Params\n    {}\n", "Method foo", "already", "", 3},
	{"protocol-without-value", "URL /pv\n  Protocol\n  Method m\n    Params\n    {}\n", "Protocol", jerr.RequiredParameterNotSpecified, "", 3},
	{"method-without-name", "URL /mn\n  Protocol json-rpc-2.0\n  Method\n    Params\n    {}\n", "Method", jerr.RequiredParameterNotSpecified, "", 3},
	{"base-url-without-value", "SERVER @nb\n  BaseUrl\n", "BaseUrl", jerr.RequiredParameterNotSpecified, "", 3},
	{"paste-without-name", "GET /pn\n  200 any\n  PASTE\n", "PASTE", jerr.RequiredParameterNotSpecified, "", 1},
	{"macro-without-name", "MACRO\n(\n  404 any\n)\n", "MACRO", jerr.RequiredParameterNotSpecified, "", 1},
	{"title-without-value", "  Title\n", "Title", jerr.RequiredParameterNotSpecified, "INFO", 0},
	{"annotated-request", "GET /ar\n  Request any // note\n  200 any\n", "Request", jerr.AnnotationIsForbiddenForTheDirective, "", 3},
	{"annotated-headers", "GET /ah\n  200 any\n    Headers // note\n    {\"h\": \"v\"}\n", "Headers", jerr.AnnotationIsForbiddenForTheDirective, "", 3},
	{"annotated-path", "GET /ap/{x}\n  Path // note\n  {\"x\": 1}\n  200 any\n", "Path", jerr.AnnotationIsForbiddenForTheDirective, "", 3},
	{"annotated-protocol", "URL /apr\n  Protocol json-rpc-2.0 // note\n  Method m\n    Params\n    {}\n", "Protocol", jerr.AnnotationIsForbiddenForTheDirective, "", 3},
	{"annotated-params", "URL /apa\n  Protocol json-rpc-2.0\n  Method m\n    Params // note\n    {}\n", "Params", jerr.AnnotationIsForbiddenForTheDirective, "", 3},
	{"double-open-paren", "URL /dp\n(\n  (\n  GET\n    200 any\n)\n", "  (", jerr.NoDirectiveForLexeme, "", 3},
	{"double-open-paren-body", "TYPE @dp\n(\n  (\n{}\n)\n", "  (", jerr.NoDirectiveForLexeme, "", 3},
	{"double-open-paren-closed-twice", "GET /dp2\n(\n  (\n  200 any\n  )\n)\n", "  (", jerr.NoDirectiveForLexeme, "", 3},
	{"annotated-result", "URL /are\n  Protocol json-rpc-2.0\n  Method m\n    Result // note\n    {}\n", "Result", jerr.AnnotationIsForbiddenForTheDirective, "", 3},
	{"annotated-info", "INFO // note\n  Title \"x\"\n", "INFO", jerr.AnnotationIsForbiddenForTheDirective, "", 0},
	{"annotated-macro", "MACRO @am // note\n(\n  404 any\n)\n", "MACRO @am", jerr.AnnotationIsForbiddenForTheDirective, "", 1},
	{"annotated-paste", "GET /apx\n  200 any\n  PASTE @m // note\n", "PASTE @m", jerr.AnnotationIsForbiddenForTheDirective, "", 1},
	{"annotated-operation-id", "GET /aoi\n  OperationId xx // note\n  200 any\n", "OperationId xx", jerr.AnnotationIsForbiddenForTheDirective, "", 3},
	{"annotated-base-url", "SERVER @ab\n  BaseUrl \"u\" // note\n", "BaseUrl", jerr.AnnotationIsForbiddenForTheDirective, "", 3},
	{"undefined-type-in-array", "GET /ua\n  200 [@nope]\n", "200 [@nope]", "not found", "", 3},
	{"undefined-type-in-request", "POST /ur\n  Request @nope\n  200 any\n", "Request @nope", "not found", "", 3},
	{"similar-paths-through-url", "URL /cats/{other}\n  DELETE\n    200 any\n", "URL /cats/{other}", "ambiguous paths", "", 3},
	{"method-without-protocol", "URL /np\n  Method bar\n    Params\n    {}\n", "Method bar", "Protocol", "", 3},
}

func vLineOf(text string, pos int) int { return 1 + strings.Count(text[:pos], "\n") }

// HFault (C03): one known fault injected into a valid document — fault class and
// placement (in the root file / in an INCLUDEd file / in a pasted MACRO body) are
// symbolic — must be rejected with the message of its class, located on the
// offending directive (same file, same line).
func HFault() {
	// the base document is valid
	if vParam("checkbase", 1) == 1 {
		_, je0 := vBuildProject(vC03Base, nil)
		vAssert(je0 == nil, "c03-base-document-rejected")
	}
	f := vC03Faults[vInt("fault", 0, len(vC03Faults)-1)]
	place := vInt("place", 0, 2)
	files := map[string]string{}
	var root, holderFile, holderText string
	var textAt int // offset of f.text inside holderText
	switch {
	case f.after != "":
		vAssume(place == 0)
		i := strings.Index(vC03Base, "\n"+f.after)
		vAssert(i >= 0, "c03-bad-fault-table-anchor")
		j := i + 1 + strings.IndexByte(vC03Base[i+1:], '\n') + 1
		root = vC03Base[:j] + f.text + vC03Base[j:]
		holderFile, holderText, textAt = "root.jst", root, j
	case place == 0:
		root = vC03Base + f.text
		holderFile, holderText, textAt = "root.jst", root, len(vC03Base)
	case place == 1:
		vAssume(f.where&1 != 0)
		root = vC03Base + "INCLUDE sub/fault.jst\n"
		files["sub/fault.jst"] = "# included\n" + f.text
		holderFile, holderText, textAt = "sub/fault.jst", files["sub/fault.jst"], len("# included\n")
	default:
		vAssume(f.where&2 != 0)
		head := "MACRO @faulty\n(\n"
		root = vC03Base + head + vIndent(f.text, 2) + ")\nPASTE @faulty\n"
		holderFile, holderText, textAt = "root.jst", root, len(vC03Base)+len(head)
	}
	// layout of the whole project (all files alike): LF / CRLF / CR line ends; the line of the
	// fault does not move (wantLine is computed on the LF text)
	if conv := vInt("conv", 0, 2); conv != 0 {
		nl := "\r\n"
		if conv == 2 {
			nl = "\r"
		}
		root = strings.ReplaceAll(root, "\n", nl)
		for k, v := range files {
			files[k] = strings.ReplaceAll(v, "\n", nl)
		}
	}
	c, je := vBuildProject(root, files)
	_ = c
	vAssert(je != nil, "c03-fault-accepted-"+f.name)
	if vParam("debug", 0) == 1 && !strings.Contains(je.Msg, f.msg) {
		vObserve("msg", f.name, place, je.Msg, int(je.Line))
	}
	vAssert(strings.Contains(je.Msg, f.msg), "c03-wrong-message-class-"+f.name)
	// location: the last occurrence of the marker inside the injected text
	seg := holderText[textAt:]
	if place == 2 && f.after == "" {
		seg = holderText[textAt : textAt+len(vIndent(f.text, 2))]
	} else {
		seg = seg[:len(f.text)]
	}
	mi := strings.LastIndex(seg, f.marker)
	vAssert(mi >= 0, "c03-bad-fault-table-marker")
	wantLine := vLineOf(holderText, textAt+mi)
	vAssert(strings.HasSuffix(je.File.Name(), "/"+holderFile), "c03-error-in-wrong-file-"+f.name)
	vAssert(int(je.Line) == wantLine, "c03-error-on-wrong-line-"+f.name)
	vReach("fault-rejected")
	vObserve("rejected", f.name, place, int(je.Line))
}

func init() { vRegister("HFault", HFault) }

const vC03NamesBase = "JSIGHT 0.3\n" +
	"SERVER @s_\n  BaseUrl \"https://h\"\n" +
	"TAG @t_\n" +
	"TYPE @c_ any\n" +
	"ENUM @e_\n[1, 2]\n" +
	"MACRO @m_\n(\n  404 any\n)\n" +
	"GET /p_\n  OperationId o_\n  200 any\n"

// HFaultNames (C03): a directive with a SYMBOLIC two-byte name is appended; it must
// be rejected as a duplicate exactly when the name equals the existing name of its
// kind (the solver finds the equal-name case), on the appended directive.
func HFaultNames() {
	kind := vInt("kind", 0, 6)
	x, y := vByte("x"), vByte("y")
	vAssume(vIsAlnum(x) && (vIsAlnum(y) || y == '_' || y == '-'))
	name := string([]byte{x, y})
	var text, existing, msg string
	switch kind {
	case 0:
		text, existing, msg = "TYPE @"+name+" any\n", "c_", "has already been declared"
	case 1:
		text, existing, msg = "ENUM @"+name+"\n[3]\n", "e_", "has already been declared"
	case 2:
		text, existing, msg = "SERVER @"+name+"\n  BaseUrl \"x\"\n", "s_", "has already been declared"
	case 3:
		text, existing, msg = "TAG @"+name+"\n", "t_", "has already been declared"
	case 4:
		text, existing, msg = "MACRO @"+name+"\n(\n  500 any\n)\n", "m_", "has already been declared"
	case 5:
		text, existing, msg = "GET /q\n  OperationId "+name+"\n  200 any\n", "o_", "has already been defined"
	default:
		text, existing, msg = "GET /"+name+"\n  200 any\n", "p_", "already been defined"
	}
	root := vC03NamesBase + text
	_, je := vBuildProject(root, nil)
	if name == existing {
		vAssert(je != nil, "c03-duplicate-name-accepted")
		vAssert(strings.Contains(je.Msg, msg), "c03-duplicate-name-wrong-message")
		// on the appended directive
		want := vLineOf(root, len(vC03NamesBase))
		if kind == 5 {
			want++
		}
		vAssert(strings.HasSuffix(je.File.Name(), "/root.jst") && int(je.Line) == want, "c03-duplicate-name-error-on-wrong-line")
		vReach("duplicate-found")
		vObserve("dup", kind)
		return
	}
	vAssert(je == nil, "c03-distinct-name-rejected")
	vReach("distinct")
	vObserve("ok", kind)
}

func init() { vRegister("HFaultNames", HFaultNames) }

// HFaultJsight (C03): JSIGHT missing / not first / with a wrong version (symbolic choice).
func HFaultJsight() {
	rest := vC03Base[len("JSIGHT 0.3\n"):]
	var root, msg string
	wantLine := 1
	switch vInt("variant", 0, 8) {
	case 4: // missing, every other directive inside a MACRO definition
		root, msg = "MACRO @m\n(\n  GET /a\n    200 any\n)\n", jerr.DirectiveJSIGHTShouldBeTheFirst
	case 5: // missing: a file of comments
		root, msg = "# nothing\n### here\n###\n", jerr.DirectiveJSIGHTShouldBeTheFirst
	case 6: // missing: an empty file
		root, msg = "", jerr.DirectiveJSIGHTShouldBeTheFirst
	case 7: // repeated
		root, msg, wantLine = "JSIGHT 0.3\nJSIGHT 0.3\n"+rest, "JSIGHT", 2
	case 8: // a version that only starts like the supported one (suffix byte symbolic)
		d := vByte("d")
		vAssume(d > ' ' && d < 0x7f && d != '/' && d != '#' && d != '"')
		root, msg = "JSIGHT 0.3"+string([]byte{d})+"\n"+rest, jerr.UnsupportedVersion
	case 0: // missing
		root, msg = rest, jerr.DirectiveJSIGHTShouldBeTheFirst
	case 1: // not first
		root, msg = "TAG @early\nJSIGHT 0.3\n"+rest, jerr.DirectiveJSIGHTShouldBeTheFirst
	case 2: // unsupported version (second digit symbolic, not '3')
		d := vByte("d")
		vAssume(d >= '0' && d <= '9' && d != '3')
		root, msg = "JSIGHT 0."+string([]byte{d})+"\n"+rest, jerr.UnsupportedVersion
	default: // without version
		root, msg = "JSIGHT\n"+rest, jerr.RequiredParameterNotSpecified
	}
	_, je := vBuildProject(root, nil)
	vAssert(je != nil, "c03-jsight-fault-accepted")
	vAssert(strings.Contains(je.Msg, msg), "c03-jsight-fault-wrong-message")
	vAssert(strings.HasSuffix(je.File.Name(), "/root.jst") && int(je.Line) == wantLine, "c03-jsight-fault-wrong-line")
	vReach("jsight-fault-rejected")
	vObserve("rejected", int(je.Line))
}

func init() { vRegister("HFaultJsight", HFaultJsight) }

// HFaultPathParam (C03): a second interaction on /cats/{<name>} with a SYMBOLIC two-byte
// parameter name is appended to a document that already has GET /cats/{id}: it must be
// rejected as an ambiguous path on the appended directive exactly when the name differs
// from "id" in any byte (the solver looks for a differing name that is accepted, e.g. one
// that differs in letter case only), and accepted when the name is "id".
func HFaultPathParam() {
	kind := vInt("kind", 0, 2)
	x, y := vByte("x"), vByte("y")
	vAssume(vIsAlnum(x) && vIsAlnum(y))
	name := string([]byte{x, y})
	base := "JSIGHT 0.3\nGET /cats/{id}\n  200 any\n"
	var text string
	switch kind {
	case 0:
		text = "POST /cats/{" + name + "}\n  200 any\n"
	case 1:
		text = "URL /cats/{" + name + "}\n  DELETE\n    200 any\n"
	default:
		text = "PUT /cats/{" + name + "}/toys\n  200 any\n"
	}
	root := base + text
	_, je := vBuildProject(root, nil)
	if name == "id" {
		vAssert(je == nil, "c03-same-path-parameter-rejected")
		vReach("same-parameter")
		return
	}
	vAssert(je != nil, "c03-ambiguous-path-accepted")
	vAssert(strings.Contains(je.Msg, "ambiguous paths"), "c03-ambiguous-path-wrong-message")
	vAssert(strings.HasSuffix(je.File.Name(), "/root.jst") && int(je.Line) == vLineOf(root, len(base)), "c03-ambiguous-path-error-on-wrong-line")
	vReach("ambiguous-found")
}

func init() { vRegister("HFaultPathParam", HFaultPathParam) }
