package core

import "strings"

// vC08BodyKinds: every directive that carries a schema body, each followed by a
// sibling directive so that a context left open (or closed too early) shows.
var vC08BodyKinds = []vBodyKind{
	{"TYPE @x\n", 0, "TYPE @after any\n", true},
	{"GET /q\n  Query\n", 2, "  200 any\n", true},
	{"GET /h\n  200 any\n    Headers\n", 4, "  404 any\n", true},
	{"GET /p/{a}\n  Path\n", 2, "  200 any\n", true},
	{"POST /r\n  Request\n", 2, "  200 any\n", true},
	{"GET /i\n  200\n", 2, "  404 any\n", true},
	{"URL /j\n  Protocol json-rpc-2.0\n  Method m\n    Params\n", 4, "    Result\n    {}\n", false},
	{"URL /k\n  Protocol json-rpc-2.0\n  Method m\n    Params\n    {}\n    Result\n", 4, "  Method n\n    Params\n    {}\n", false},
	{"POST /rb\n  Request\n    Body\n", 4, "  200 any\n", true},
	{"GET /ib\n  200\n    Body\n", 4, "  404 any\n", true},
	{"ENUM @e\n", 0, "TYPE @after any\n", false},
}

// HLayoutBody (C08): the layout between the keyword line of a body-carrying
// directive and its body. Directive kind (11), placement (root / pasted MACRO) and
// the rewrite are symbolic:
//
//	rewrite 0: the body in an explicit "( ... )" context;
//	rewrite 1: a "#" line comment on its own line before the body;
//	rewrite 2: a one-line "### ... ###" block comment before the body;
//	rewrite 3: a multi-line "###" block comment (with a blank line inside) before the body;
//	rewrite 4: a blank line and a whitespace-only line before the body;
//	rewrite 5: the explicit context AND a multi-line block comment after "(".
//
func HLayoutBody() {
	kind := vInt("kind", 0, len(vC08BodyKinds)-1)
	k := vC08BodyKinds[kind]
	rw := vInt("rewrite", 0, 5)
	place := vInt("place", 0, 1)
	body := "{\n  \"a\": 1 // note\n}\n"
	if kind == 10 {
		body = "[\n  1, // one\n  2\n]\n"
	}
	pad := strings.Repeat(" ", k.indent)
	var between, tail string
	ind := k.indent
	switch rw {
	case 0:
		between, tail, ind = pad+"(\n", pad+")\n", k.indent+2
	case 1:
		between = pad + "# a comment ( with { signs [\n"
	case 2:
		between = pad + "### block { comment ###\n"
	case 3:
		between = pad + "### first line\n\n  second [ line\n" + pad + "###\n"
	case 4:
		between = "\n" + pad + " \t\n"
	case 5:
		between, tail, ind = pad+"(\n"+pad+"### first line\n  second ( line ###\n", pad+")\n", k.indent+2
	}
	plain := k.before + vIndent(body, k.indent) + k.after
	rewritten := k.before + between + vIndent(body, ind) + tail + k.after
	wrap := func(block string) string {
		head := "JSIGHT 0.3\nTYPE @ok any\n"
		if place == 1 {
			vAssume(k.macro)
			return head + "MACRO @mm\n(\n" + vIndent(block, 2) + ")\nPASTE @mm\n"
		}
		return head + block
	}
	c1, e1 := vBuildProject(wrap(plain), nil)
	vAssert(e1 == nil, "c08-body-fixture-rejected")
	c2, e2 := vBuildProject(wrap(rewritten), nil)
	vAssert(e2 == nil, "c08-body-layout-changes-verdict")
	d2 := vDigestDeep(c2)
	if (kind == 0 || kind == 8 || kind == 9) && rw != 0 && rw != 4 {
		// TYPE and Body hand everything after the keyword line to the schema scanner, for which "#"
		// starts a schema comment: the comment is part of the body text that the digest
		// renders (the schema itself, hence the JSON catalog, is the same)
		c := between
		if rw == 5 {
			c = between[len(pad)+2:]
		}
		for i := range d2 {
			d2[i] = strings.Replace(d2[i], vSquash(c), "", 1)
		}
	}
	vSameDigest(vDigestDeep(c1), d2, "c08-body-layout-changes-catalog")
	vReach("body-layout-compared")
	vObserve("digest", strings.Join(d2, "|"))
}

func init() { vRegister("HLayoutBody", HLayoutBody) }
