package core

import (
	"strings"

	"github.com/jsightapi/jsight-api-core/scanner"
)

// vDirectiveBoundaries: line-start positions at which a directive keyword line begins (plus len(doc)).
func vDirectiveBoundariesScan(doc string) []int {
	var out []int
	for _, l := range vScanDoc(doc) {
		if l.t != scanner.Keyword {
			continue
		}
		p := l.b
		for p > 0 && doc[p-1] != '\n' {
			p--
		}
		// only blanks between the line start and the keyword
		ok := true
		for i := p; i < l.b; i++ {
			if doc[i] != ' ' && doc[i] != '\t' {
				ok = false
			}
		}
		if ok && (len(out) == 0 || out[len(out)-1] != p) {
			out = append(out, p)
		}
	}
	return append(out, len(doc))
}

// HIncludeSplit (C09): the skeleton vs. the same document with the piece
// [bounds[a], bounds[a+span]) moved into piece.jst and replaced by an INCLUDE
// (optionally the piece is itself split once more: depth 2). The cut position a,
// the line end after INCLUDE and the tail of the included file are symbolic.
// vC09Extra: further rule-rejected documents (doc index = len(vLayoutDocs) + i): the error is
// raised while a macro body is expanded at its PASTE; the MACRO may end up in an included file.
var vC09Extra = []string{
	"JSIGHT 0.3\nMACRO @m\n(\n  200 any\n)\nTYPE @t any\nPASTE @m\n",
	"JSIGHT 0.3\nTYPE @t any\nMACRO @inner\n(\n  Body any\n)\nMACRO @m\n(\n  PASTE @inner\n)\nTYPE @u any\nPASTE @m\n",
	// accepted: directives that carry a body AND still take children (the cut falls between the body and the first child)
	"JSIGHT 0.3\nGET /cats\n  200\n  {\"id\": 1}\n    Headers\n    {\"X-Total\": \"1\"}\n  404 any\n    Headers\n    {\"X-Why\": \"a\"}\nPOST /cats\n  Request\n  {\"id\": 2}\n    Headers\n    {\"X-In\": \"b\"}\n  201\n  {\"ok\": true}\n    Headers\n    {\"X-Out\": \"c\"}\n",
}

func HIncludeSplit() {
	var doc string
	if di := vParam("doc", 0); di < len(vLayoutDocs) {
		doc = strings.ReplaceAll(vLayoutDocs[di], "\r\n", "\n")
	} else {
		doc = vC09Extra[di-len(vLayoutDocs)]
	}
	span := vParam("span", 1)
	depth := vParam("depth", 1)
	bounds := vDirectiveBoundaries(doc)
	if len(bounds) < span+2 {
		vReach("too-short")
		return
	}
	ai := vInt("a", 1, len(bounds)-1-span) // boundary 0 is JSIGHT, which must stay in the root file
	a, b := bounds[ai], bounds[ai+span]
	piece := doc[a:b]
	// tail of the included file: as is / without the final line end / an extra blank line / a comment line
	tail := vInt("tail", 0, 3)
	if tail >= 2 {
		// extra trivia at the end of the piece only where trivia is legal in the unsplit
		// document (not, e.g., right after a Description text, which runs up to the next directive)
		legal := false
		for _, st := range vTriviaSites(doc) {
			if st.kind == 0 && st.pos == b {
				legal = true
			}
		}
		vAssume(legal)
	}
	switch tail {
	case 1:
		piece = strings.TrimSuffix(piece, "\n")
	case 2:
		piece += "\n"
	case 3:
		piece += "# end of piece\n"
	}
	nl := "\n"
	if vBool("crlf") {
		nl = "\r\n"
	}
	files := map[string]string{}
	for k, v := range vLayoutFiles {
		files[k] = v
	}
	rootB := doc[:a] + "INCLUDE piece.jst" + nl + doc[b:]
	if depth == 2 && span >= 2 {
		// the piece is itself cut at its first inner boundary
		m := bounds[ai+1] - a
		if m < len(piece) {
			files["inner.jst"] = piece[m:]
			piece = piece[:m] + "INCLUDE inner.jst\n"
		}
	}
	files["piece.jst"] = piece
	if vParam("dirs", 0) == 1 && span >= 2 {
		// two DIFFERENT files that are both written "inner.jst": the first block in inner.jst next to
		// the root file, the rest in sub/inner.jst, included from sub/wrap.jst (resolution is
		// relative to the including file)
		a1 := bounds[ai+1]
		vAssume(!strings.Contains(doc[a1:b], "INCLUDE"))
		delete(files, "piece.jst")
		files["inner.jst"] = doc[a:a1]
		files["sub/inner.jst"] = doc[a1:b]
		files["sub/wrap.jst"] = "INCLUDE inner.jst" + nl
		rootB = doc[:a] + "INCLUDE inner.jst" + nl + "INCLUDE sub/wrap.jst" + nl + doc[b:]
	}

	cA, jeA := vBuildProject(doc, vLayoutFiles)
	cB, jeB := vBuildProject(rootB, files)
	if vParam("debug", 0) == 1 && (jeA == nil) != (jeB == nil) {
		vObserve("piece", piece, jeB.File.Name(), int(jeB.Index), jeB.Msg)
	}
	vAssert((jeA == nil) == (jeB == nil), "c09-include-changes-accept-reject")
	if jeA != nil {
		vAssert(vMsgClass(jeA) == vMsgClass(jeB), "c09-include-changes-error-class")
		// "rejected with the same message": the whole text, not only its class
		vAssert(jeA.Msg == jeB.Msg, "c09-include-changes-error-message")
		if strings.HasSuffix(jeA.File.Name(), "/root.jst") && depth == 1 && vParam("dirs", 0) == 0 {
			idx := int(jeA.Index)
			switch {
			case idx < a:
				vAssert(strings.HasSuffix(jeB.File.Name(), "/root.jst") && int(jeB.Index) == idx, "c09-error-location")
			case idx < b:
				vAssert(strings.HasSuffix(jeB.File.Name(), "/piece.jst") && int(jeB.Index) == idx-a, "c09-error-not-in-the-file-that-holds-the-directive")
			default:
				vAssert(strings.HasSuffix(jeB.File.Name(), "/root.jst") && int(jeB.Index) == idx-(b-a)+len("INCLUDE piece.jst")+len(nl), "c09-error-location-after-include")
			}
		}
		vReach("both-rejected")
		vObserve("rejected", a, b)
		return
	}
	if vParam("debug", 0) == 1 {
		dA, dB := vDigestDeep(cA), vDigestDeep(cB)
		for i := range dA {
			if i < len(dB) && dA[i] != dB[i] {
				vObserve("diff", dA[i], dB[i], piece)
			}
		}
	}
	vSameDigest(vDigestDeep(cA), vDigestDeep(cB), "c09-include-changes-catalog")
	if vParam("closure", 0) == 1 {
		vCheckClosure(cB)
	}
	vReach("same-catalog")
	vObserve("same", a, b)
}

func init() { vRegister("HIncludeSplit", HIncludeSplit) }
