package core

import "strings"

// HPasteTwice (C10): "used many times" — one macro called from TWO places, each call
// compared with the body written in place. The pair of call sites (two URLs with a path
// parameter, two methods, two responses of one method), the macro body (what the sites
// admit), an optional directive between the two sites and the position of the MACRO
// definition (before JSIGHT, right after it, at the end) are symbolic.
func HPasteTwice() {
	type pair struct {
		head1, tail1 string // first parent before / after the call
		head2, tail2 string
		indent       int
		bodies       []string
	}
	pairs := []pair{
		{"URL /cats/{id}\n", "", "URL /dogs/{id}\n", "", 2, []string{
			"GET\n  Path\n  {\"id\": 1}\n  200 any\n",
			"Path\n{\"id\": 1}\nGET\n  200 any\n",
			"GET\n  200 any\nDELETE\n  Description\n    gone\n  204 empty\n",
		}},
		{"GET /cats/{id}\n", "  200 any\n", "POST /dogs/{id}\n", "  201 any\n", 2, []string{
			"Path\n{\"id\": 1}\n",
			"Description\n  text\n",
			"Query\n{\"q\": 1}\n",
			"Request\n  Headers\n  {\"h\": 1}\n  Body any\n404 any\n",
		}},
		{"GET /r\n  200\n", "    Body any\n", "  404\n", "    Body any\n", 4, []string{
			"Headers\n{\"h\": 1}\n",
		}},
	}
	p := pairs[vInt("pair", 0, len(pairs)-1)]
	bi := vInt("body", 0, 3)
	vAssume(bi < len(p.bodies))
	body := p.bodies[bi]
	sep := ""
	if vBool("sep") && p.indent == 2 {
		sep = []string{"TYPE @sep any\n", "GET /between/{x}\n  Path\n  {\"x\": 2}\n  200 any\n"}[vInt("sepKind", 0, 1)]
	}
	head := "JSIGHT 0.3\n"
	docA := head + p.head1 + vIndent(body, p.indent) + p.tail1 + sep + p.head2 + vIndent(body, p.indent) + p.tail2
	call := vIndent("PASTE @m\n", p.indent)
	macro := "MACRO @m\n(\n" + vIndent(body, 2) + ")\n"
	docB := head + p.head1 + call + p.tail1 + sep + p.head2 + call + p.tail2
	switch vInt("defPos", 0, 2) {
	case 0:
		docB = macro + docB
	case 1:
		docB = strings.Replace(docB, head, head+macro, 1)
	default:
		docB += macro
	}
	cA, jeA := vBuildText(docA)
	vAssert(jeA == nil, "c10u-fixture-rejected")
	cB, jeB := vBuildText(docB)
	vAssert(jeB == nil, "c10u-second-use-of-a-macro-rejected")
	vSameDigest(vDigestDeep(cA), vDigestDeep(cB), "c10u-paste-changes-catalog")
	vCheckClosure(cB)
	vReach("same-catalog")
	vObserve("same")
}

func init() { vRegister("HPasteTwice", HPasteTwice) }
