package core

import (
	"sort"
	"strconv"
	"strings"

	"github.com/jsightapi/jsight-api-core/catalog"
	"github.com/jsightapi/jsight-api-core/directive"
)

// vSquash removes all blanks and line ends (layout-insensitive rendering of a body).
func vSquash(s string) string {
	var sb strings.Builder
	for i := 0; i < len(s); i++ {
		c := s[i]
		if c != ' ' && c != '\t' && c != '\n' && c != '\r' {
			sb.WriteByte(c)
		}
	}
	return sb.String()
}

func vBody(d directive.Directive) string {
	if !d.BodyCoords.IsSet() {
		return "-"
	}
	return vSquash(d.BodyCoords.Read().String())
}

func vOpt(s *string) string {
	if s == nil {
		return "<nil>"
	}
	return strconv.Quote(*s)
}

// vDigest renders what the catalog "says": every entity, in catalog order, with
// its names, ids, annotations, descriptions, parameters and the (layout-free)
// text of its schemas. Two documents with the same meaning have equal digests.
func vDigest(c *JApiCore) []string {
	cat := c.catalog
	var out []string
	add := func(parts ...string) { out = append(out, strings.Join(parts, " ")) }
	add("jsight", cat.JSightVersion)
	if cat.Info != nil {
		add("info", strconv.Quote(cat.Info.Title), strconv.Quote(cat.Info.Version), vOpt(cat.Info.Description))
	}
	_ = cat.Servers.Each(func(k string, v *catalog.Server) error {
		add("server", k, strconv.Quote(v.BaseUrl), strconv.Quote(v.Annotation))
		return nil
	})
	_ = cat.UserTypes.Each(func(k string, v *catalog.UserType) error {
		add("type", k, strconv.Quote(v.Annotation), string(v.Schema.Notation()), vBody(v.Directive))
		return nil
	})
	_ = cat.UserEnums.Each(func(k string, v *catalog.UserRule) error {
		add("enum", k, strconv.Quote(v.Annotation), vBody(*v.Directive))
		return nil
	})
	_ = cat.Tags.Each(func(k catalog.TagName, v *catalog.Tag) error {
		var ids []string
		for _, p := range []catalog.Protocol{catalog.HTTP, catalog.JsonRpc} {
			switch g := v.InteractionGroups[p].(type) {
			case *catalog.TagHTTPInteractionGroup:
				for _, id := range g.Interactions {
					ids = append(ids, id.String())
				}
			case *catalog.TagJsonRpcInteractionGroup:
				for _, id := range g.Interactions {
					ids = append(ids, id.String())
				}
			}
		}
		add("tag", string(k), strconv.Quote(v.Title), vOpt(v.Description), "["+strings.Join(ids, ",")+"]")
		return nil
	})
	_ = cat.Interactions.Each(func(k catalog.InteractionID, v catalog.Interaction) error {
		switch in := v.(type) {
		case *catalog.HTTPInteraction:
			var tags []string
			for _, t := range in.Tags {
				tags = append(tags, string(t))
			}
			add("http", k.String(), in.Id, "tags="+strings.Join(tags, ","), "ann="+vOpt(in.Annotation), "desc="+vOpt(in.Description), "opid="+vOpt(in.OperationId))
			if in.PathVariables != nil {
				add("  pathvars")
			}
			if in.Query != nil {
				add("  query", strconv.Quote(in.Query.Format), strconv.Quote(in.Query.Example), vBody(in.Query.Directive))
			}
			if in.Request != nil {
				if in.Request.HTTPRequestHeaders != nil {
					add("  request-headers", vBody(in.Request.HTTPRequestHeaders.Directive))
				}
				if in.Request.HTTPRequestBody != nil {
					add("  request-body", string(in.Request.HTTPRequestBody.Format), string(in.Request.HTTPRequestBody.Schema.Notation()), vBody(in.Request.HTTPRequestBody.Directive))
				}
			}
			for _, r := range in.Responses {
				add("  response", r.Code, strconv.Quote(r.Annotation))
				if r.Headers != nil {
					add("    headers", vBody(r.Headers.Directive))
				}
				if r.Body != nil {
					add("    body", string(r.Body.Format), string(r.Body.Schema.Notation()), vBody(r.Body.Directive), strings.Join(r.Body.Directive.UnnamedParameter(), ","), r.Body.Directive.NamedParameter("Type"))
				}
			}
		case *catalog.JsonRpcInteraction:
			var tags []string
			for _, t := range in.Tags {
				tags = append(tags, string(t))
			}
			add("jsonrpc", k.String(), in.Id, in.Method, "tags="+strings.Join(tags, ","), "ann="+vOpt(in.Annotation), "desc="+vOpt(in.Description))
			if in.Params != nil {
				add("  params", vBody(in.Params.Directive))
			}
			if in.Result != nil {
				add("  result", vBody(in.Result.Directive))
			}
		}
		return nil
	})
	return out
}

// vSameDigest asserts equality entry by entry (so that the failing entity is named by the assertion id).
func vSameDigest(a, b []string, id string) {
	vAssert(len(a) == len(b), id+"-entity-count")
	for i := range a {
		vAssert(a[i] == b[i], id+"-entity")
	}
}

// vSortedCopy is used where the property allows a different order.
func vSortedCopy(a []string) []string {
	b := append([]string(nil), a...)
	sort.Strings(b)
	return b
}

// vDigestDeep = vDigest plus, for every schema and enum of the catalog, the data the
// JSON emitter hands to encoding/json (catalog.VSchemaDigest / VRuleDigest, in
// harness/catalog/zz_verif_deep.go): content tree with types, scalar values, notes,
// rules, inheritance, used user types and enums.
func vDigestDeep(c *JApiCore) []string {
	out := vDigest(c)
	cat := c.catalog
	add := func(parts ...string) { out = append(out, strings.Join(parts, " ")) }
	_ = cat.UserTypes.Each(func(k string, v *catalog.UserType) error {
		add("deep type", k, strconv.Quote(v.Description), catalog.VSchemaDigest(v.Schema))
		return nil
	})
	_ = cat.UserEnums.Each(func(k string, v *catalog.UserRule) error {
		add("deep enum", k, strconv.Quote(v.Description), catalog.VRuleDigest(v.Value))
		return nil
	})
	_ = cat.Interactions.Each(func(k catalog.InteractionID, v catalog.Interaction) error {
		switch in := v.(type) {
		case *catalog.HTTPInteraction:
			if in.PathVariables != nil {
				add("deep pathvars", k.String(), catalog.VSchemaDigest(in.PathVariables.Schema))
			}
			if in.Query != nil {
				add("deep query", k.String(), catalog.VSchemaDigest(in.Query.Schema))
			}
			if in.Request != nil {
				if in.Request.HTTPRequestHeaders != nil {
					add("deep request-headers", k.String(), catalog.VSchemaDigest(in.Request.HTTPRequestHeaders.Schema))
				}
				if in.Request.HTTPRequestBody != nil {
					add("deep request-body", k.String(), catalog.VSchemaDigest(in.Request.HTTPRequestBody.Schema))
				}
			}
			for _, r := range in.Responses {
				if r.Headers != nil {
					add("deep response-headers", k.String(), r.Code, catalog.VSchemaDigest(r.Headers.Schema))
				}
				if r.Body != nil {
					add("deep response-body", k.String(), r.Code, catalog.VSchemaDigest(r.Body.Schema))
				}
			}
		case *catalog.JsonRpcInteraction:
			if in.Params != nil {
				add("deep params", k.String(), catalog.VSchemaDigest(in.Params.Schema))
			}
			if in.Result != nil {
				add("deep result", k.String(), catalog.VSchemaDigest(in.Result.Schema))
			}
		}
		return nil
	})
	return out
}
