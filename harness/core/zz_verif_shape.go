package core

// JDoc Exchange 2.0.0 shape (C04), decided on the BYTES ToJson returns: a small JSON reader
// (plain Go, so the identical code runs in the engine and natively) turns the bytes into a
// tree, and vShape walks the tree against the shape the property names: the fixed top-level
// keys, every interaction, tag, server, user type and enum with its required fields, every
// schema node typed consistently, and every name that the document uses (tags of an
// interaction, interactions of a tag, usedUserTypes / usedUserEnums) defined in it.
// The shape is hand-written from the property statement and the exchange format as the
// repository's own snapshots show it (all 1108 corpus files pass it: `vcheck SELFTEST`).

// ---- the shape ----

type vShapeCtx struct {
	bad      string // first violated rule ("" = none)
	types    map[string]bool
	enums    map[string]bool
	tags     map[string]bool
	inter    map[string]string // id -> protocol
	nSchemas int
}

func (c *vShapeCtx) need(cond bool, rule string) bool {
	if !cond && c.bad == "" {
		c.bad = rule
	}
	return cond
}

// keysWithin: the keys of o appear in the order of allowed (a subsequence of it), each of
// must is there.
func (c *vShapeCtx) keysWithin(o *vJ, what string, allowed []string, must []string) bool {
	if !c.need(o.is('o'), what+"-not-an-object") {
		return false
	}
	a := 0
	for _, k := range o.keys {
		for a < len(allowed) && allowed[a] != k {
			a++
		}
		if !c.need(a < len(allowed), what+"-unexpected-or-misplaced-key-"+k) {
			return false
		}
		a++
	}
	for _, m := range must {
		if !c.need(o.get(m) != nil, what+"-without-"+m) {
			return false
		}
	}
	return true
}

func vOneOf(s string, set ...string) bool {
	for _, x := range set {
		if s == x {
			return true
		}
	}
	return false
}

func (c *vShapeCtx) optString(o *vJ, what, key string) {
	if v := o.get(key); v != nil {
		c.need(v.is('s'), what+"-"+key+"-not-a-string")
	}
}

func (c *vShapeCtx) rule(r *vJ, what string) {
	if !c.need(r.is('o'), what+"-rule-not-an-object") {
		return
	}
	tt := r.get("tokenType")
	if !c.need(tt.is('s') && vOneOf(tt.s, "object", "array", "string", "number", "boolean", "null", "annotation", "reference"), what+"-rule-token-type") {
		return
	}
	if tt.s == "object" || tt.s == "array" {
		if !c.keysWithin(r, what+"-rule", []string{"key", "tokenType", "note", "children"}, nil) {
			return
		}
		if ch := r.get("children"); ch != nil {
			if c.need(ch.is('a'), what+"-rule-children-not-an-array") {
				for _, x := range ch.vals {
					c.rule(x, what)
				}
			}
		}
	} else {
		if !c.keysWithin(r, what+"-rule", []string{"key", "tokenType", "note", "scalarValue"}, []string{"scalarValue"}) {
			return
		}
		c.need(r.get("scalarValue").is('s'), what+"-rule-scalar-value-not-a-string")
	}
	c.optString(r, what+"-rule", "key")
	c.optString(r, what+"-rule", "note")
}

func (c *vShapeCtx) node(n *vJ, what string, inObject bool, depth int) {
	if !c.need(n.is('o'), what+"-node-not-an-object") || !c.need(depth < 100, what+"-node-too-deep") {
		return
	}
	tt := n.get("tokenType")
	if !c.need(tt.is('s') && vOneOf(tt.s, "object", "array", "string", "number", "boolean", "null", "annotation", "reference"), what+"-node-token-type") {
		return
	}
	container := tt.s == "object" || tt.s == "array"
	if container {
		if !c.keysWithin(n, what+"-node", []string{"rules", "key", "tokenType", "type", "inheritedFrom", "note", "children", "isKeyUserTypeRef", "optional"}, []string{"children", "optional"}) {
			return
		}
	} else {
		if !c.keysWithin(n, what+"-node", []string{"note", "key", "tokenType", "type", "scalarValue", "inheritedFrom", "rules", "isKeyUserTypeRef", "optional"}, []string{"scalarValue", "optional"}) {
			return
		}
		c.need(n.get("scalarValue").is('s'), what+"-node-scalar-value-not-a-string")
	}
	c.need(n.get("optional").is('b'), what+"-node-optional-not-a-boolean")
	c.need(n.get("type").is('s') && n.get("type").s != "", what+"-node-without-type")
	if inObject {
		c.need(n.get("key").is('s'), what+"-object-member-without-key")
	}
	c.optString(n, what+"-node", "key")
	c.optString(n, what+"-node", "note")
	c.optString(n, what+"-node", "inheritedFrom")
	if v := n.get("isKeyUserTypeRef"); v != nil {
		c.need(v.is('b'), what+"-node-isKeyUserTypeRef-not-a-boolean")
	}
	if rs := n.get("rules"); rs != nil {
		if c.need(rs.is('a') && len(rs.vals) > 0, what+"-node-rules-not-a-filled-array") {
			for _, r := range rs.vals {
				c.rule(r, what)
			}
		}
	}
	if container {
		ch := n.get("children")
		if c.need(ch.is('a'), what+"-node-children-not-an-array") {
			for _, x := range ch.vals {
				c.node(x, what, tt.s == "object", depth+1)
			}
		}
	}
}

func (c *vShapeCtx) names(list *vJ, defined map[string]bool, what string) {
	if list == nil {
		return
	}
	if !c.need(list.is('a') && len(list.vals) > 0, what+"-not-a-filled-array") {
		return
	}
	seen := map[string]bool{}
	for _, x := range list.vals {
		if c.need(x.is('s'), what+"-entry-not-a-string") {
			c.need(defined[x.s], what+"-names-something-undefined")
			c.need(!seen[x.s], what+"-names-something-twice")
			seen[x.s] = true
		}
	}
}

func (c *vShapeCtx) schema(s *vJ, what string) {
	c.nSchemas++
	if !c.keysWithin(s, what+"-schema", []string{"content", "example", "notation", "usedUserTypes", "usedUserEnums"}, []string{"notation"}) {
		return
	}
	nt := s.get("notation")
	if !c.need(nt.is('s') && vOneOf(nt.s, "jsight", "regex", "any", "empty"), what+"-schema-notation") {
		return
	}
	c.optString(s, what+"-schema", "example")
	switch nt.s {
	case "jsight":
		if c.need(s.get("content") != nil, what+"-jsight-schema-without-content") {
			c.node(s.get("content"), what, false, 0)
		}
		c.names(s.get("usedUserTypes"), c.types, what+"-usedUserTypes")
		c.names(s.get("usedUserEnums"), c.enums, what+"-usedUserEnums")
	case "regex":
		c.need(s.get("content").is('s'), what+"-regex-schema-content-not-a-string")
		c.need(s.get("usedUserTypes") == nil && s.get("usedUserEnums") == nil, what+"-regex-schema-with-used-names")
	default:
		c.need(len(s.keys) == 1, what+"-pseudo-schema-with-more-than-notation")
	}
}

// holder: an object {schema: S} (path variables, headers, params, result, baseUrlVariables).
func (c *vShapeCtx) holder(h *vJ, what string) {
	if c.keysWithin(h, what, []string{"schema"}, []string{"schema"}) {
		c.schema(h.get("schema"), what)
	}
}

func (c *vShapeCtx) body(b *vJ, what string) {
	if c.keysWithin(b, what, []string{"format", "schema"}, []string{"format", "schema"}) {
		c.need(b.get("format").is('s') && vOneOf(b.get("format").s, "json", "plainString", "binary"), what+"-format")
		c.schema(b.get("schema"), what)
	}
}

func (c *vShapeCtx) collectTags(t *vJ, depth int) {
	if !t.is('o') || depth > 20 {
		return
	}
	for i, k := range t.keys {
		c.tags[k] = true
		c.collectTags(t.vals[i].get("children"), depth+1)
	}
}

func (c *vShapeCtx) tagsObj(t *vJ, depth int) {
	if !c.need(t.is('o'), "tags-not-an-object") || !c.need(depth <= 20, "tags-too-deep") {
		return
	}
	for i, k := range t.keys {
		v := t.vals[i]
		if !c.keysWithin(v, "tag", []string{"children", "name", "title", "description", "interactionGroups"}, []string{"name", "title", "interactionGroups"}) {
			return
		}
		c.need(v.get("name").is('s') && v.get("name").s == k, "tag-name-differs-from-its-key")
		c.need(v.get("title").is('s'), "tag-title-not-a-string")
		c.optString(v, "tag", "description")
		g := v.get("interactionGroups")
		if c.need(g.is('a'), "tag-interaction-groups-not-an-array") {
			seenP := map[string]bool{}
			for _, grp := range g.vals {
				if !c.keysWithin(grp, "tag-group", []string{"protocol", "interactions"}, []string{"protocol", "interactions"}) {
					return
				}
				p := grp.get("protocol")
				c.need(p.is('s') && vOneOf(p.s, "http", "json-rpc-2.0"), "tag-group-protocol")
				if p.is('s') {
					c.need(!seenP[p.s], "tag-group-protocol-twice")
					seenP[p.s] = true
				}
				il := grp.get("interactions")
				if c.need(il.is('a') && len(il.vals) > 0, "tag-group-interactions-not-a-filled-array") {
					for _, id := range il.vals {
						if c.need(id.is('s'), "tag-group-interaction-not-a-string") {
							pr, ok := c.inter[id.s]
							c.need(ok, "tag-group-names-an-undefined-interaction")
							c.need(!ok || !p.is('s') || pr == p.s, "tag-group-protocol-differs-from-the-interaction")
						}
					}
				}
			}
		}
		if ch := v.get("children"); ch != nil {
			c.tagsObj(ch, depth+1)
		}
	}
}

func (c *vShapeCtx) interaction(id string, v *vJ) {
	if !c.need(v.is('o'), "interaction-not-an-object") {
		return
	}
	p := v.get("protocol")
	if !c.need(p.is('s') && vOneOf(p.s, "http", "json-rpc-2.0"), "interaction-protocol") {
		return
	}
	c.need(v.get("id").is('s') && v.get("id").s == id, "interaction-id-differs-from-its-key")
	path := v.get("path")
	c.need(path.is('s') && len(path.s) > 0 && path.s[0] == '/', "interaction-path")
	tg := v.get("tags")
	if c.need(tg.is('a'), "interaction-tags-not-an-array") {
		for _, t := range tg.vals {
			if c.need(t.is('s'), "interaction-tag-not-a-string") {
				c.need(c.tags[t.s], "interaction-names-an-undefined-tag")
			}
		}
	}
	c.optString(v, "interaction", "annotation")
	c.optString(v, "interaction", "description")
	if p.s == "http" {
		if !c.keysWithin(v, "http-interaction", []string{"id", "protocol", "httpMethod", "path", "pathVariables", "tags", "annotation", "description", "query", "request", "responses"},
			[]string{"id", "protocol", "httpMethod", "path", "tags"}) {
			return
		}
		m := v.get("httpMethod")
		c.need(m.is('s') && vOneOf(m.s, "GET", "POST", "PUT", "PATCH", "DELETE"), "http-interaction-method")
		if m.is('s') && path.is('s') {
			c.need(id == "http "+m.s+" "+path.s, "http-interaction-id-is-not-protocol-method-path")
		}
		if pv := v.get("pathVariables"); pv != nil {
			c.holder(pv, "path-variables")
		}
		if q := v.get("query"); q != nil {
			if c.keysWithin(q, "query", []string{"example", "format", "schema"}, []string{"format", "schema"}) {
				c.need(q.get("format").is('s') && vOneOf(q.get("format").s, "htmlFormEncoded", "noFormat"), "query-format")
				c.optString(q, "query", "example")
				c.schema(q.get("schema"), "query")
			}
		}
		if rq := v.get("request"); rq != nil {
			if c.keysWithin(rq, "request", []string{"headers", "body"}, nil) {
				if h := rq.get("headers"); h != nil {
					c.holder(h, "request-headers")
				}
				if b := rq.get("body"); b != nil {
					c.body(b, "request-body")
				}
			}
		}
		if rs := v.get("responses"); rs != nil {
			if c.need(rs.is('a') && len(rs.vals) > 0, "responses-not-a-filled-array") {
				for _, r := range rs.vals {
					if !c.keysWithin(r, "response", []string{"code", "annotation", "headers", "body"}, []string{"code", "body"}) {
						return
					}
					c.need(r.get("code").is('s') && len(r.get("code").s) == 3, "response-code")
					c.optString(r, "response", "annotation")
					if h := r.get("headers"); h != nil {
						c.holder(h, "response-headers")
					}
					c.body(r.get("body"), "response-body")
				}
			}
		}
	} else {
		if !c.keysWithin(v, "json-rpc-interaction", []string{"id", "protocol", "path", "method", "tags", "annotation", "description", "params", "result"},
			[]string{"id", "protocol", "path", "method", "tags"}) {
			return
		}
		m := v.get("method")
		c.need(m.is('s') && m.s != "", "json-rpc-interaction-method")
		if m.is('s') && path.is('s') {
			c.need(id == "json-rpc-2.0 "+m.s+" "+path.s, "json-rpc-interaction-id-is-not-protocol-method-path")
		}
		if x := v.get("params"); x != nil {
			c.holder(x, "params")
		}
		if x := v.get("result"); x != nil {
			c.holder(x, "result")
		}
	}
}

// vShape returns "" if the exchange document has the JDoc Exchange 2.0.0 shape, else the
// first rule it breaks; the second result is the number of schemas walked.
func vShape(doc string) (string, int) {
	top, ok := vJSONParse(doc)
	if !ok {
		return "not-json", 0
	}
	c := &vShapeCtx{types: map[string]bool{}, enums: map[string]bool{}, tags: map[string]bool{}, inter: map[string]string{}}
	if !c.keysWithin(top, "top", []string{"tags", "info", "servers", "userTypes", "userEnums", "interactions", "jsight", "jdocExchangeVersion"},
		[]string{"tags", "interactions", "jsight", "jdocExchangeVersion"}) {
		return c.bad, 0
	}
	c.need(top.get("jsight").is('s') && top.get("jsight").s == "0.3", "top-jsight-version")
	c.need(top.get("jdocExchangeVersion").is('s') && top.get("jdocExchangeVersion").s == "2.0.0", "top-exchange-version")
	// names first: the sections refer to each other
	if ut := top.get("userTypes"); ut != nil && c.need(ut.is('o') && len(ut.keys) > 0, "user-types-not-a-filled-object") {
		for _, k := range ut.keys {
			c.need(len(k) > 1 && k[0] == '@', "user-type-name")
			c.types[k] = true
		}
	}
	if ue := top.get("userEnums"); ue != nil && c.need(ue.is('o') && len(ue.keys) > 0, "user-enums-not-a-filled-object") {
		for _, k := range ue.keys {
			c.need(len(k) > 1 && k[0] == '@', "user-enum-name")
			c.enums[k] = true
		}
	}
	c.collectTags(top.get("tags"), 0)
	in := top.get("interactions")
	if c.need(in.is('o'), "interactions-not-an-object") {
		for i, k := range in.keys {
			if p := in.vals[i].get("protocol"); p.is('s') {
				c.inter[k] = p.s
			} else {
				c.inter[k] = "?"
			}
		}
	}
	// sections
	if info := top.get("info"); info != nil {
		if c.keysWithin(info, "info", []string{"title", "version", "description"}, nil) {
			c.optString(info, "info", "title")
			c.optString(info, "info", "version")
			c.optString(info, "info", "description")
		}
	}
	if sv := top.get("servers"); sv != nil && c.need(sv.is('o') && len(sv.keys) > 0, "servers-not-a-filled-object") {
		for i := range sv.keys {
			s := sv.vals[i]
			if c.keysWithin(s, "server", []string{"baseUrlVariables", "annotation", "baseUrl"}, []string{"baseUrl"}) {
				c.need(s.get("baseUrl").is('s'), "server-base-url-not-a-string")
				c.optString(s, "server", "annotation")
				if b := s.get("baseUrlVariables"); b != nil {
					c.holder(b, "base-url-variables")
				}
			}
		}
	}
	if ut := top.get("userTypes"); ut.is('o') {
		for i := range ut.keys {
			t := ut.vals[i]
			if c.keysWithin(t, "user-type", []string{"annotation", "description", "schema"}, []string{"schema"}) {
				c.optString(t, "user-type", "annotation")
				c.optString(t, "user-type", "description")
				c.schema(t.get("schema"), "user-type")
			}
		}
	}
	if ue := top.get("userEnums"); ue.is('o') {
		for i := range ue.keys {
			e := ue.vals[i]
			if c.keysWithin(e, "user-enum", []string{"annotation", "description", "value"}, []string{"annotation", "description", "value"}) {
				c.need(e.get("annotation").is('s') && e.get("description").is('s'), "user-enum-texts-not-strings")
				c.rule(e.get("value"), "user-enum")
				c.need(e.get("value").get("tokenType").is('s') && e.get("value").get("tokenType").s == "array", "user-enum-value-not-an-array-rule")
			}
		}
	}
	c.tagsObj(top.get("tags"), 0)
	if in.is('o') {
		for i, k := range in.keys {
			c.interaction(k, in.vals[i])
		}
	}
	return c.bad, c.nSchemas
}
