package core

import "strings"

// Frozen site tables of the skeleton documents (vLayoutDocs): positions where
// trivia may be inserted (pos*2+kind; kind 0 = line start between directives,
// 1 = end of a line) and directive boundaries of the LF-normalised document.
// They were computed ONCE from the skeletons with the scanner of the pinned tree
// (vTriviaSitesScan / vDirectiveBoundariesScan) and are never recomputed at run
// time, so that a changed scanner cannot move or hide the sites it is tested at.
var vFrozenSites = [][]int{
	{21,22,31,32,55,56,79,80,107,145,146,189,190,203,204,223,259,293,294,305,306,329,330,377,378,397,447,448,475,539,540,565,566,589,590,603,604,629,630,659,660,673,709,710,733,734,751,755,756,767,768,793,794,797,798,829,830},
	{21,22,39,40,87,88,109,110,141,179,227},
	{21,22,81,153,183,241,265,266,289,293,294,313,314,331,332,335,336,407,465,561,562,575,579,580,593,601,602,637,681,682,713,714,721,722,725,726,745,746,769,770},
	{21,22,55,56,75,76},
	{21,22,35,36,55,56,79,80},
}

var vFrozenBounds = [][]int{
	{0,11,16,28,40,63,73,95,102,122,137,147,153,165,189,212,224,255,270,283,295,302,315,330,349,355,367,378,384,399,415},
	{0,11,20,44,55,79,103,127},
	{0,11,27,62,84,101,133,147,157,168,190,227,248,281,290,301,328,341,385,395,405,417},
	{0,11,28,38},
	{0,11,18,28,40},
}

func vDocIndex(doc string) int {
	for i, d := range vLayoutDocs {
		if d == doc || strings.ReplaceAll(d, "\r\n", "\n") == doc {
			return i
		}
	}
	return -1
}

func vTriviaSites(doc string) []vSitePos {
	i := vDocIndex(doc)
	if i < 0 {
		return vTriviaSitesScan(doc)
	}
	var out []vSitePos
	for _, x := range vFrozenSites[i] {
		out = append(out, vSitePos{x / 2, x % 2})
	}
	return out
}

func vDirectiveBoundaries(doc string) []int {
	i := vDocIndex(doc)
	if i < 0 {
		return vDirectiveBoundariesScan(doc)
	}
	return vFrozenBounds[i]
}
