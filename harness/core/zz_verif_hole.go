package core

import (
	"strings"

	"github.com/jsightapi/jsight-schema-core/fs"
)

// Representative documents (valid and nearly valid) into which symbolic holes are cut.
var vHoleDocs = []string{
	// 0: HTTP kitchen sink (same text as the C19 fixture #0)
	vBanDocs[0].root,
	// 1: JSON-RPC
	vBanDocs[1].root,
	// 2: Description forms, regex / enum / jsight types, tags, a macro used twice, nested explicit contexts, comments, CRLF tail
	"JSIGHT 0.3\n" +
		"TAG @a // first\n  Description\n  (\n    tag text\n  )\n" +
		"TYPE @re regex\n/ab+c/\n" +
		"TYPE @x\n{\"v\": 1}\n" +
		"ENUM @en /* enum */\n[\"a\", \"b\"] \n" +
		"MACRO @errs\n(\n  404 any\n  500 @x\n)\n" +
		"GET /a/{id} // get it\n  Description\n    the text\n    of it\n  200\n  {\"ok\": true}\n  PASTE @errs # trailing comment\n" +
		"URL /b\n(\n  POST\n  (\n    Request regex\n    /x+/\n    201 [@x]\n    PASTE @errs\n  )\n)\n" +
		"### block\ncomment ###\n" +
		"DELETE /b\r\n  Tags @a\r\n  200 empty\r\n",
	// 3: duplicated names and includes (nearly valid)
	"JSIGHT 0.3\nTYPE @a\n{}\nTYPE @b regex\n/a/\nINCLUDE inc.jst\nGET /q\n  Query \"a=1\"\n  {\"a\": 1}\n  200 @a\nINCLUDE inc.jst\n",
	// 4: schema constructs: enum rule, regex type, min, allOf, or, a type used before its definition, arrays, Path, Query
	"JSIGHT 0.3\nENUM @e\n[1, \"a\"]\nTYPE @s regex\n/ab+/\nTYPE @base\n{\n  \"id\": 1, // {min: 0}\n  \"k\": \"a\" // {enum: @e}\n}\nTYPE @kid\n{ // {allOf: \"@base\"}\n  \"s\": @s,\n  \"u\": 1 // {or: [\"@s\", \"integer\"]}\n}\nTYPE @late\n{\n  \"b\": @base // {optional: true}\n}\nGET /x/{id}\n  Path\n  {\"id\": 5}\n  Query\n  {\"q\": [1, 2]}\n  200 [@kid]\nPOST /x\n  Request @late\n  201 @s\n",
}

// HBuildHole (C01, C07-b): doc[:cut] ++ k arbitrary bytes (++ doc[cut+k:] when mode=1).
func HBuildHole() {
	doc := vHoleDocs[vParam("doc", 0)]
	cut, k, mode := vParam("cut", 0), vParam("k", 2), vParam("mode", 0)
	if cut > len(doc) {
		cut = len(doc)
	}
	data := append([]byte(doc[:cut]), vBytes("d", k)...)
	if mode == 1 && cut+k < len(doc) {
		data = append(data, doc[cut+k:]...)
	}
	vDir(vPath("/vfs/p"))
	vFile(vPath("/vfs/p/inc.jst"), []byte("PATCH /dogs\n  200 any\nDELETE /dogs\n  200 any\n"))
	f := fs.NewFile(vPath("/vfs/p/root.jst"), data)
	c := NewJApiCore(f)
	je := c.BuildCatalog()
	if je != nil {
		vAssert(je.File != nil, "error-without-file")
		vAssert(int(je.Index) <= je.File.Content().Len(), "error-index-outside-file")
		vAssert(strings.HasPrefix(je.File.Name(), vPath("/vfs/p/")), "error-file-not-in-project")
		vObserve("err", int(je.Index), je.Msg)
		vReach("error")
		return
	}
	vObserve("ok", len(c.directivesWithPastes))
	vReach("ok")
}

func init() { vRegister("HBuildHole", HBuildHole) }
