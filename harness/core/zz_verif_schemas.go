package core

import (
	"strings"
)

// vSchemaFragments: one schema value per entry — every rule of the schema language with the
// types it applies to, every type name as `type`, as `additionalProperties` and inside `or`,
// enums inline and by name, references, allOf. @t is an object type, @u a scalar type, @e an enum.
var vSchemaFragments = []string{
	// scalar types by name
	"1 // {type: \"integer\"}",
	"1.5 // {type: \"float\"}",
	"1.50 // {type: \"decimal\", precision: 2}",
	"\"s\" // {type: \"string\"}",
	"true // {type: \"boolean\"}",
	"null // {type: \"null\"}",
	"\"a@b.cc\" // {type: \"email\"}",
	"\"http://h.cc\" // {type: \"uri\"}",
	"\"550e8400-e29b-41d4-a716-446655440000\" // {type: \"uuid\"}",
	"\"2020-01-02\" // {type: \"date\"}",
	"\"2020-01-02T03:04:05+00:00\" // {type: \"datetime\"}",
	"\"a\" // {type: \"enum\", enum: [\"a\", \"b\"]}",
	"\"a\" // {enum: [\"a\", 1, true, null, 2.5]}",
	"1 // {enum: @e}",
	"1 // {type: \"mixed\", or: [\"integer\", \"string\"]}",
	"1 // {type: \"any\"}",
	"{} // {type: \"object\"}",
	"[] // {type: \"array\"}",
	// numeric and string rules
	"1 // {min: 0, max: 9}",
	"1 // {min: 0, exclusiveMinimum: true, max: 2, exclusiveMaximum: true}",
	"1 // {const: true}",
	"\"ab\" // {minLength: 1, maxLength: 3}",
	"\"ab\" // {regex: \"a.*\"}",
	"\"ab\" // {const: true}",
	"1 // {nullable: true}",
	"\"s\" // {nullable: true}",
	// references
	"@t",
	"@u",
	"@t | @u",
	"@u // {nullable: true}",
	"1 // {type: \"@u\"}",
	"1 // {or: [\"@u\", \"string\"]}",
	"1 // {or: [\"@t\", \"@u\"]}",
	// or with rule sets
	"1 // {or: [{type: \"string\"}, {type: \"integer\", min: 0}]}",
	"1 // {or: [{type: \"string\"}, {type: \"enum\", enum: [1, 2, 3]}]}",
	"1 // {or: [{type: \"string\"}, {type: \"enum\", enum: @e}]}",
	"1 // {or: [{enum: @e}, \"string\"]}",
	"1 // {or: [{type: \"decimal\", precision: 1}, {type: \"null\"}]}",
	"1 // {or: [{type: \"array\"}, {type: \"object\"}, \"integer\"]}",
	"1 // {or: [{type: \"any\"}, \"integer\"]}",
	"1 // {or: [{type: \"date\"}, {type: \"email\"}, \"integer\"]}",
	// arrays
	"[1] // {minItems: 1, maxItems: 3}",
	"[1, \"a\"]",
	"[@t]",
	"[@t, @u]",
	"[[1]]",
	"[{\"k\": 1}]",
	"[] // {maxItems: 0}",
	// objects
	"{\"k\": 1, \"o\": 2 // {optional: true}\n}",
	"{\"k\": {\"n\": [1]}}",
	"{ // {allOf: \"@t\"}\n \"own\": 1\n}",
	"{ // {allOf: [\"@t\"]}\n}",
	"{ // {nullable: true}\n}",
	"{@u: 1}",
	// additionalProperties with every value
	"{} // {additionalProperties: true}",
	"{} // {additionalProperties: false}",
	"{} // {additionalProperties: \"string\"}",
	"{} // {additionalProperties: \"integer\"}",
	"{} // {additionalProperties: \"float\"}",
	"{} // {additionalProperties: \"decimal\"}",
	"{} // {additionalProperties: \"boolean\"}",
	"{} // {additionalProperties: \"object\"}",
	"{} // {additionalProperties: \"array\"}",
	"{} // {additionalProperties: \"null\"}",
	"{} // {additionalProperties: \"email\"}",
	"{} // {additionalProperties: \"uri\"}",
	"{} // {additionalProperties: \"uuid\"}",
	"{} // {additionalProperties: \"date\"}",
	"{} // {additionalProperties: \"datetime\"}",
	"{} // {additionalProperties: \"enum\"}",
	"{} // {additionalProperties: \"mixed\"}",
	"{} // {additionalProperties: \"any\"}",
	"{} // {additionalProperties: \"@t\"}",
	"{} // {additionalProperties: \"@u\"}",
}

// HSchemaMatrix (C01, C04, C17): every fragment of the schema language x every place a schema
// value can stand (root of a user type, property of a type, item of an array, response body,
// request body, property of Query / Path / request Headers / response Headers, JSON-RPC
// Params): the build terminates without a panic; an ACCEPTED document serialises to JDoc
// Exchange JSON of the right shape (C04) and its OpenAPI export is an error value or a sound
// document, never a panic (C17).
func HSchemaMatrix() {
	fi := vInt("fragment", 0, len(vSchemaFragments)-1)
	pl := vInt("place", 0, 10)
	frag := ""
	for k := range vSchemaFragments { // concretise the choice
		if fi == k {
			frag = vSchemaFragments[k]
			break
		}
	}
	common := "TYPE @t\n{\"id\": 1}\nTYPE @u\n1 // {min: 0}\nENUM @e\n[1, 2]\n"
	prop := "{\n  \"p\": " + strings.Replace(frag, "\n", "\n  ", -1) + "\n}\n"
	doc := "JSIGHT 0.3\n" + common
	switch pl {
	case 0:
		doc += "TYPE @x\n" + frag + "\nGET /a\n  200 @x\n"
	case 1:
		doc += "TYPE @x\n" + prop + "GET /a\n  200 @x\n"
	case 2:
		doc += "GET /a\n  200\n  [\n    " + strings.Replace(frag, "\n", "\n    ", -1) + "\n  ]\n"
	case 3:
		doc += "GET /a\n  200\n  " + strings.Replace(frag, "\n", "\n  ", -1) + "\n"
	case 4:
		doc += "POST /a\n  Request\n  " + strings.Replace(prop, "\n", "\n  ", -1) + "\n  200 any\n"
	case 5:
		doc += "GET /a\n  Query\n  " + strings.Replace(prop, "\n", "\n  ", -1) + "\n  200 any\n"
	case 6:
		doc += "GET /a/{p}\n  Path\n  " + strings.Replace(prop, "\n", "\n  ", -1) + "\n  200 any\n"
	case 7:
		doc += "POST /a\n  Request\n    Headers\n    " + strings.Replace(prop, "\n", "\n    ", -1) + "\n    Body any\n  200 any\n"
	case 8:
		doc += "GET /a\n  200\n    Headers\n    " + strings.Replace(prop, "\n", "\n    ", -1) + "\n    Body any\n"
	case 9:
		doc += "URL /r\n  Protocol json-rpc-2.0\n  Method m\n    Params\n    " + strings.Replace(prop, "\n", "\n    ", -1) + "\n    Result\n    " + strings.Replace(frag, "\n", "\n    ", -1) + "\n"
	default:
		// the fragment in two same-code responses (merged by the exporter) and in a type used as Query
		doc += "TYPE @x\n" + prop + "GET /a\n  Query @x\n  200 @x\n  200\n  " + strings.Replace(frag, "\n", "\n  ", -1) + "\n"
	}
	c, je := vBuildText(doc)
	if je != nil {
		vAssert(je.File != nil && int(je.Index) <= je.File.Content().Len(), "c01-error-location-outside-file")
		vReach("rejected")
		vObserve("rejected", fi, pl)
		return
	}
	if pl <= 1 {
		vReach("accepted-as-type")
	}
	if vParam("build", 0) == 1 { // C01: the build alone
		vCheckClosure(c)
		vReach("accepted")
		vObserve("accepted", fi, pl)
		return
	}
	for _, l := range vEmit(c) {
		vAssert(!strings.Contains(l, "error:"), "c04-serialisation-step-fails-for-an-accepted-document")
		vAssert(!strings.Contains(l, "ILL-TYPED"), "c04-content-node-typed-inconsistently")
	}
	vCheckClosure(c)
	if vParam("export", 0) == 1 {
		vExportNoPanic(c)
		vCheckOpenAPIJSON(c)
	} else {
		vCheckJSON(c)
	}
	vReach("accepted")
	vObserve("accepted", fi, pl)
}

func init() { vRegister("HSchemaMatrix", HSchemaMatrix) }
