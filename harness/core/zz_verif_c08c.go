package core

import (
	"sort"
	"strings"

	"github.com/jsightapi/jsight-schema-core/fs"

	"github.com/jsightapi/jsight-api-core/directive"
	"github.com/jsightapi/jsight-api-core/scanner"
)

// HLayoutExplicit (C08): one implicit context of the skeleton (symbolic choice)
// is written as an explicit "( ... )" context: same catalog.
func HLayoutExplicit() {
	doc := strings.ReplaceAll(vLayoutDocs[vParam("doc", 0)], "\r\n", "\n")
	// the skeleton's own directive tree (concrete scan) tells where the blocks are
	vDir(vPath("/vfs/p"))
	for n, c := range vLayoutFiles {
		vFile(vPath("/vfs/p/"+n), []byte(c))
	}
	rootName := vPath("/vfs/p/root.jst")
	c0 := NewJApiCore(fs.NewFile(rootName, []byte(doc)))
	if je := c0.scanProject(); je != nil {
		vReach("skeleton-not-scannable")
		return
	}
	lexemes := vScanDoc(doc)
	type ent struct {
		d     *directive.Directive
		begin int
	}
	var all []ent
	var walk func(d *directive.Directive)
	inRoot := func(d *directive.Directive) (int, bool) {
		je := d.KeywordError("x")
		return int(je.Index), je.File.Name() == rootName
	}
	walk = func(d *directive.Directive) {
		if b, ok := inRoot(d); ok {
			all = append(all, ent{d, b})
		}
		for _, ch := range d.Children {
			walk(ch)
		}
	}
	for _, d := range c0.directives {
		walk(d)
	}
	sort.Slice(all, func(i, j int) bool { return all[i].begin < all[j].begin })
	isDesc := func(x, anc *directive.Directive) bool {
		for p := x.Parent; p != nil; p = p.Parent {
			if p == anc {
				return true
			}
		}
		return false
	}
	lineStart := func(p int) int {
		for p > 0 && doc[p-1] != '\n' {
			p--
		}
		return p
	}
	type cand struct{ open, close int }
	var cands []cand
	for i, e := range all {
		if len(e.d.Children) == 0 || e.d.HasExplicitContext || e.d.Type() == directive.Macro {
			continue
		}
		// all descendants must be in the root file and contiguous
		first, _ := inRoot(e.d.Children[0])
		j := i + 1
		hasPaste := false
		for j < len(all) && isDesc(all[j].d, e.d) {
			if all[j].d.Type() == directive.Paste {
				hasPaste = true // a pasted body may leave an implicit context: the explicit form is not equivalent
			}
			j++
		}
		if hasPaste {
			continue
		}
		// the block ends before the first keyword / ')' lexeme after the last descendant's keyword
		end := len(doc)
		last := all[j-1].begin
		for _, l := range lexemes {
			if l.b > last && (l.t == scanner.Keyword || l.t == scanner.ContextExplicitClosing) {
				end = lineStart(l.b)
				break
			}
		}
		if j == i+1 || lineStart(first) <= e.begin {
			continue
		}
		// do not cut through a trailing comment block: close right before the next directive's line
		cands = append(cands, cand{lineStart(first), end})
	}
	if len(cands) == 0 {
		vReach("no-implicit-context")
		return
	}
	cd := cands[vInt("ctx", 0, len(cands)-1)]
	tail := doc[cd.open:cd.close]
	if !strings.HasSuffix(tail, "\n") {
		tail += "\n"
	}
	variant := doc[:cd.open] + "(\n" + tail + ")\n" + doc[cd.close:]
	cA, jeA := vBuildProject(doc, vLayoutFiles)
	cB, jeB := vBuildProject(variant, vLayoutFiles)
	if vParam("debug", 0) == 1 && jeB != nil {
		vObserve("variant", variant, int(jeB.Index), jeB.Msg)
	}
	vAssert((jeA == nil) == (jeB == nil), "c08-explicit-context-changes-accept-reject")
	if jeA != nil {
		vAssert(vMsgClass(jeA) == vMsgClass(jeB), "c08-explicit-context-changes-error-class")
		vReach("both-rejected")
		vObserve("rejected", cd.open)
		return
	}
	vSameDigest(vDigestDeep(cA), vDigestDeep(cB), "c08-explicit-context-changes-catalog")
	vReach("same-catalog")
	vObserve("same", cd.open, cd.close)
}

func init() { vRegister("HLayoutExplicit", HLayoutExplicit) }
