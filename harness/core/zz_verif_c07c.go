package core

import (
	"strconv"
	"strings"

	"github.com/jsightapi/jsight-schema-core/fs"
)

// HIncludeTrace (C07-c): the include trace of an error must list exactly the chain
// of INCLUDE directives that was followed, innermost first, each with the line of
// that INCLUDE. Project: root.jst includes r0 (line 3) and r1 (line 6), r0/r1 in
// {a, b} symbolic; a includes c at its line 2, b includes c at its line 4.
// variant 0: c declares TYPE @dup — the SECOND inclusion is the offending one
//            (error raised after scanning, through the directive's include tracer);
// variant 1: c holds a directive that is not allowed at root — the FIRST inclusion
//            fails during scanning (trace taken from the live scanner stack);
// variant 2: an erroneous directive of the root file right before an INCLUDE;
// variant 3: the failing directive follows a nested INCLUDE inside r0 (scan-time error):
//            the nested file must have been popped from the trace;
// variant 4: same with a single INCLUDE in the root file, error raised after scanning
//            (undefined type), trace taken from the directive's tracer.
func HIncludeTrace() {
	variant := vParam("variant", 0)
	pick := func(id string) byte {
		t := vByte(id)
		vAssume(t == 'a' || t == 'b')
		return t
	}
	r0, r1 := pick("r0"), pick("r1")
	vDir(vPath("/vfs/p"))
	vFile(vPath("/vfs/p/a"), []byte("\nINCLUDE c\n"))
	vFile(vPath("/vfs/p/b"), []byte("\n\n\nINCLUDE c\n"))
	switch variant {
	case 3:
		vFile(vPath("/vfs/p/a"), []byte("\nINCLUDE c\n\nBody any\n"))
		vFile(vPath("/vfs/p/b"), []byte("\n\n\nINCLUDE c\nBody any\n"))
		vFile(vPath("/vfs/p/c"), []byte("# a directive of its own, so that a tracer of c exists\nTYPE @inner any\n"))
	case 4:
		vFile(vPath("/vfs/p/a"), []byte("\nINCLUDE c\nTYPE @t @nope\n"))
		vFile(vPath("/vfs/p/b"), []byte("\n\n\nINCLUDE c\n\n\nTYPE @t @nope\n"))
		vFile(vPath("/vfs/p/c"), []byte("# a directive of its own, so that a tracer of c exists\nTYPE @inner any\n"))
	case 1:
		vFile(vPath("/vfs/p/c"), []byte("\n\nBody any\n"))
	default:
		vFile(vPath("/vfs/p/c"), []byte("\n\nTYPE @dup any\n"))
	}
	root := []byte{'J', 'S', 'I', 'G', 'H', 'T', ' ', '0', '.', '3', '\n', '\n', 'I', 'N', 'C', 'L', 'U', 'D', 'E', ' ', r0, '\n', '\n', '\n', 'I', 'N', 'C', 'L', 'U', 'D', 'E', ' ', r1, '\n'}
	if variant == 4 {
		root = root[:22]
	}
	if variant == 2 {
		// an erroneous directive of the ROOT file written right before an INCLUDE: the error
		// belongs to the root file and was not reached through any INCLUDE
		root = []byte{'J', 'S', 'I', 'G', 'H', 'T', ' ', '0', '.', '3', '\n', '\n', '2', '0', '0', ' ', 'a', 'n', 'y', '\n', 'I', 'N', 'C', 'L', 'U', 'D', 'E', ' ', r0, '\n'}
	}
	c := NewJApiCore(fs.NewFile(vPath("/vfs/p/root.jst"), root))
	je := c.BuildCatalog()
	vAssert(je != nil, "c07-fixture-expected-an-error")

	lineOfIncludeC := func(f byte) int {
		if f == 'a' {
			return 2
		}
		return 4
	}
	var want []string
	if variant == 2 {
		vAssert(strings.HasSuffix(je.File.Name(), "/root.jst"), "c07-error-not-in-the-root-file")
		vAssert(je.Error() == je.Msg, "c07-include-trace-on-an-error-of-the-root-file")
		vAssert(int(je.Line) == 3, "c07-root-error-line")
		vReach("trace")
		vObserve("trace", "none")
		return
	}
	if variant == 3 || variant == 4 {
		f, incl := r0, "root.jst:3"
		line := map[byte]string{'a': "4", 'b': "5"}
		if variant == 4 {
			line = map[byte]string{'a': "3", 'b': "7"}
		}
		vAssert(strings.HasSuffix(je.File.Name(), "/"+string(f)), "c07-error-not-in-the-including-file")
		want = []string{string(f) + ":" + line[f], incl}
		got := vTraceLines(je.Error())
		vAssert(len(got) == len(want), "c07-include-trace-length")
		for i := range want {
			vAssert(got[i] == want[i], "c07-include-trace-entry-"+strconv.Itoa(i))
		}
		vReach("trace")
		vObserve("trace", strings.Join(got, " "))
		return
	}
	if variant == 1 {
		want = []string{"c:3", string(r0) + ":" + strconv.Itoa(lineOfIncludeC(r0)), "root.jst:3"}
	} else {
		want = []string{"c:3", string(r1) + ":" + strconv.Itoa(lineOfIncludeC(r1)), "root.jst:6"}
	}
	// je.Error() = message, then "<file>:<line>" of the error, then one line per INCLUDE followed, innermost first
	got := vTraceLines(je.Error())
	vAssert(strings.HasSuffix(je.File.Name(), "/c"), "c07-error-not-in-the-included-file")
	vAssert(len(got) == len(want), "c07-include-trace-length")
	for i := range want {
		vAssert(got[i] == want[i], "c07-include-trace-entry-"+strconv.Itoa(i))
	}
	vReach("trace")
	vObserve("trace", strings.Join(got, " "))
}

func vTraceLines(e string) []string {
	lines := strings.Split(e, "\n")
	var got []string
	for _, l := range lines[1:] {
		if i := strings.LastIndex(l, "/"); i >= 0 {
			l = l[i+1:]
		}
		got = append(got, l)
	}
	return got
}

func init() { vRegister("HIncludeTrace", HIncludeTrace) }
