package core

import (
	"strings"

	"github.com/jsightapi/jsight-api-core/catalog"
)

// vPathParams: the {parameters} of a path (reference, independent of core.pathParameters).
func vPathParams(path string) []string {
	var out []string
	for _, seg := range strings.Split(path, "/") {
		if len(seg) >= 2 && seg[0] == '{' && seg[len(seg)-1] == '}' {
			out = append(out, seg[1:len(seg)-1])
		}
	}
	return out
}

// vCheckClosure (C05): cross-references of a built catalog are closed and names are unique.
func vCheckClosure(c *JApiCore) {
	cat := c.catalog
	vAssert(cat.JSightVersion == "0.3", "c05-jsight-version")
	// interactions: key == id == "<protocol> <method> <path>"
	seen := map[string]bool{}
	_ = cat.Interactions.Each(func(k catalog.InteractionID, v catalog.Interaction) error {
		key := k.String()
		vAssert(!seen[key], "c05-duplicate-interaction-key")
		seen[key] = true
		var tags []catalog.TagName
		switch in := v.(type) {
		case *catalog.HTTPInteraction:
			vAssert(in.Id == key, "c05-http-id-differs-from-key")
			vAssert(in.Id == "http "+in.HttpMethod.String()+" "+string(in.PathVal), "c05-http-id-fields")
			vAssert(in.Protocol == catalog.HTTP, "c05-http-protocol")
			tags = in.Tags
			// path variables exactly when the path has {parameters}
			want := vPathParams(string(in.PathVal))
			vAssert((in.PathVariables != nil) == (len(want) > 0), "c05-path-variables-vs-path-parameters")
			if in.PathVariables != nil {
				// the pathVariables schema has exactly the {parameters} of the path as properties
				ast, err := in.PathVariables.Schema.GetAST()
				vAssert(err == nil, "c05-path-variables-schema-has-no-ast")
				vAssert(len(ast.Children) == len(want), "c05-path-variables-count-differs-from-path-parameters")
				for _, w := range want {
					found := false
					for _, ch := range ast.Children {
						if ch.Key == w {
							found = true
						}
					}
					vAssert(found, "c05-path-parameter-without-path-variable")
				}
			}
			for _, r := range in.Responses {
				vAssert(len(r.Code) == 3 && r.Code[0] >= '1' && r.Code[0] <= '5' && r.Code[1] >= '0' && r.Code[1] <= '9' && r.Code[2] >= '0' && r.Code[2] <= '9', "c05-response-code-range")
				vAssert(r.Body != nil, "c05-response-without-body")
			}
		case *catalog.JsonRpcInteraction:
			vAssert(in.Id == key, "c05-jsonrpc-id-differs-from-key")
			vAssert(in.Id == "json-rpc-2.0 "+in.Method+" "+string(in.PathVal), "c05-jsonrpc-id-fields")
			vAssert(in.Protocol == catalog.JsonRpc, "c05-jsonrpc-protocol")
			tags = in.Tags
		}
		// every tag named by the interaction exists and lists it exactly once under its protocol
		vAssert(len(tags) > 0, "c05-interaction-without-tag")
		for i, tn := range tags {
			for j := 0; j < i; j++ {
				vAssert(tags[j] != tn, "c05-tag-named-twice-by-interaction")
			}
			t, ok := cat.Tags.Get(tn)
			vAssert(ok, "c05-interaction-names-undefined-tag")
			n := 0
			for p, g := range t.InteractionGroups {
				var ids []catalog.InteractionID
				switch g := g.(type) {
				case *catalog.TagHTTPInteractionGroup:
					ids = g.Interactions
				case *catalog.TagJsonRpcInteractionGroup:
					ids = g.Interactions
				}
				for _, id := range ids {
					if id.String() == key {
						n++
						vAssert(p == k.Protocol(), "c05-tag-lists-interaction-under-wrong-protocol")
					}
				}
			}
			vAssert(n == 1, "c05-tag-does-not-list-interaction-exactly-once")
		}
		return nil
	})
	// and vice versa: every interaction listed by a tag exists and names that tag
	_ = cat.Tags.Each(func(tn catalog.TagName, t *catalog.Tag) error {
		vAssert(t.Name == tn, "c05-tag-key-differs-from-name")
		for _, g := range t.InteractionGroups {
			var ids []catalog.InteractionID
			switch g := g.(type) {
			case *catalog.TagHTTPInteractionGroup:
				ids = g.Interactions
			case *catalog.TagJsonRpcInteractionGroup:
				ids = g.Interactions
			}
			for _, id := range ids {
				v, ok := cat.Interactions.Get(id)
				vAssert(ok, "c05-tag-lists-unknown-interaction")
				var tags []catalog.TagName
				switch in := v.(type) {
				case *catalog.HTTPInteraction:
					tags = in.Tags
				case *catalog.JsonRpcInteraction:
					tags = in.Tags
				}
				found := false
				for _, x := range tags {
					if x == tn {
						found = true
					}
				}
				vAssert(found, "c05-tag-lists-interaction-that-does-not-name-it")
			}
		}
		return nil
	})
	// every name in a schema's usedUserTypes / usedUserEnums is defined (the lists the JSON
	// emitter writes, taken from the emitter's own structures), no name twice
	used := func(where string, sc catalog.ExchangeSchema) {
		types, enums, err := catalog.VUsedNames(sc)
		vAssert(err == nil, "c05-schema-of-an-accepted-document-does-not-compile-in-the-emitter")
		for i, n := range types {
			_, ok := cat.UserTypes.Get(n)
			vAssert(ok, "c05-used-user-type-not-defined")
			for j := 0; j < i; j++ {
				vAssert(types[j] != n, "c05-used-user-type-listed-twice")
			}
		}
		for i, n := range enums {
			_, ok := cat.UserEnums.Get(n)
			vAssert(ok, "c05-used-user-enum-not-defined")
			for j := 0; j < i; j++ {
				vAssert(enums[j] != n, "c05-used-user-enum-listed-twice")
			}
		}
	}
	_ = cat.UserTypes.Each(func(k string, v *catalog.UserType) error { used("type "+k, v.Schema); return nil })
	_ = cat.Interactions.Each(func(k catalog.InteractionID, v catalog.Interaction) error {
		switch in := v.(type) {
		case *catalog.HTTPInteraction:
			if in.PathVariables != nil {
				used("pathvars", in.PathVariables.Schema)
			}
			if in.Query != nil {
				used("query", in.Query.Schema)
			}
			if in.Request != nil {
				if in.Request.HTTPRequestHeaders != nil {
					used("request-headers", in.Request.HTTPRequestHeaders.Schema)
				}
				if in.Request.HTTPRequestBody != nil {
					used("request-body", in.Request.HTTPRequestBody.Schema)
				}
			}
			for _, r := range in.Responses {
				if r.Headers != nil {
					used("response-headers", r.Headers.Schema)
				}
				if r.Body != nil {
					used("response-body", r.Body.Schema)
				}
			}
		case *catalog.JsonRpcInteraction:
			if in.Params != nil {
				used("params", in.Params.Schema)
			}
			if in.Result != nil {
				used("result", in.Result.Schema)
			}
		}
		return nil
	})
	// user types / enums / servers: keys unique by construction of the ordered maps; order list and data agree
	n := 0
	_ = cat.UserTypes.Each(func(k string, v *catalog.UserType) error { n++; return nil })
	vAssert(n == cat.UserTypes.Len(), "c05-user-types-order-and-data-disagree")
}

// HTagsModel (C05): tags declared and used with symbolic choices. Two TAGs, a URL
// with optional URL-level Tags, two methods with optional own Tags; every Tags
// directive names 1..2 tags chosen symbolically (possibly the same one twice,
// possibly an undeclared one).
func HTagsModel() {
	names := []string{"@a", "@b", "@zz"} // @zz is not declared
	pick := func(id string) string { return names[vInt(id, 0, 2)] }
	tagsLine := func(id, indent string, max int) string {
		switch vInt(id+"n", 0, max) {
		case 0:
			return ""
		case 1:
			return indent + "Tags " + pick(id+"0") + "\n"
		case 2:
			return indent + "Tags " + pick(id+"0") + " " + pick(id+"1") + "\n"
		}
		return indent + "Tags " + pick(id+"0") + " " + pick(id+"1") + " " + pick(id+"2") + "\n"
	}
	doc := "JSIGHT 0.3\nTAG @a\nTAG @b\n" +
		"URL /u/{id}\n" + tagsLine("u", "  ", 2) +
		"  GET\n" + tagsLine("g", "    ", 3) + "    200 any\n" +
		"  POST\n    200 any\n" +
		"URL /rpc\n  Protocol json-rpc-2.0\n  Method m\n" + tagsLine("m", "    ", 1) + "    Params\n    {}\n"
	c, je := vBuildText(doc)
	usesUndeclared := strings.Contains(doc, "@zz")
	if usesUndeclared {
		vAssert(je != nil && strings.Contains(je.Msg, "tag not found"), "c05-undeclared-tag-accepted")
		vReach("undeclared")
		vObserve("rejected")
		return
	}
	vAssert(je == nil, "c05-valid-tags-document-rejected")
	vCheckClosure(c)
	vReach("closed")
	vObserve("ok", len(vDigest(c)))
}

// HClosureHole (C05): the closure invariants on every ACCEPTED document of the hole family.
func HClosureHole() {
	doc := vHoleDocs[vParam("doc", 0)]
	cut, k, mode := vParam("cut", 0), vParam("k", 2), vParam("mode", 1)
	if cut > len(doc) {
		cut = len(doc)
	}
	data := doc[:cut] + string(vBytes("d", k))
	if mode == 1 && cut+k < len(doc) {
		data += doc[cut+k:]
	}
	c, je := vBuildProject(data, vLayoutFiles)
	if je != nil {
		vReach("rejected")
		vObserve("err")
		return
	}
	vCheckClosure(c)
	vReach("closed")
	vObserve("ok")
}

func init() {
	vRegister("HTagsModel", HTagsModel)
	vRegister("HClosureHole", HClosureHole)
}

// HPathVarsModel (C05): path variables declared on different levels. URL /c/{id}
// with an optional URL-level Path describing {id}; a method under it with an
// optional own Path; a stand-alone method on a longer path sharing the prefix
// (optional Path describing its extra parameter, or both, or none) — all choices
// symbolic; accepted documents must have pathVariables == {parameters} for every interaction.
func HPathVarsModel() {
	urlPath, getPath, farPath := vBool("urlPath"), vBool("getPath"), vInt("farPath", 0, 3)
	order := vBool("farFirst")
	url := "URL /c/{id}\n"
	if urlPath {
		url += "  Path\n  {\n    \"id\": 1\n  }\n"
	}
	url += "  GET\n"
	if getPath && !urlPath {
		url += "    Path\n    {\n      \"id\": 2\n    }\n"
	}
	url += "    200 any\n  PUT\n    200 any\n"
	// the method of the stand-alone resources: every HTTP method gets its path variables
	meth := []string{"GET", "POST", "PUT", "PATCH", "DELETE"}[vInt("method", 0, 4)]
	far := meth + " /c/{id}/f/{fid}\n"
	switch farPath {
	case 1:
		far += "  Path\n  {\n    \"fid\": 3\n  }\n"
	case 2:
		if !urlPath && !getPath {
			far += "  Path\n  {\n    \"id\": 4,\n    \"fid\": 3\n  }\n"
		}
	case 3:
		far += "  Path\n  {\n    \"fid\": \"s\" // {type: \"string\"}\n  }\n"
	}
	far += "  200 any\n"
	hdrOnly := vBool("hdrOnly") // a response that has Headers but no body must not reach the catalog
	if hdrOnly {
		far += "  404\n    Headers\n    {\n      \"h\": \"v\"\n    }\n"
	}
	// a stand-alone method whose parameter shares its prefix with nothing else
	lone := meth + " /lone/{p}/{q}\n  200 any\n"
	doc := "JSIGHT 0.3\n"
	if order {
		doc += far + url + lone
	} else {
		doc += lone + url + far
	}
	c, je := vBuildText(doc)
	if hdrOnly {
		vAssert(je != nil, "c05-response-without-body-accepted")
	}
	if je != nil {
		vReach("rejected")
		vObserve("err", je.Msg)
		return
	}
	vCheckClosure(c)
	vReach("closed")
	vObserve("ok")
}

func init() { vRegister("HPathVarsModel", HPathVarsModel) }
