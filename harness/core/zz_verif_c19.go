package core

import (
	"strings"

	"github.com/jsightapi/jsight-schema-core/fs"

	"github.com/jsightapi/jsight-api-core/directive"
	"github.com/jsightapi/jsight-api-core/jerr"
)

// keyword text per kind (frozen; response code written as a concrete code)
var vSpecKeywordText = [kCount]string{"JSIGHT", "INFO", "Title", "Version", "Description", "SERVER", "BaseUrl", "URL", "GET", "POST",
	"PUT", "PATCH", "DELETE", "Body", "Request", "", "Path", "Headers", "Query", "TYPE", "ENUM", "MACRO", "PASTE", "INCLUDE",
	"Protocol", "Method", "Params", "Result", "TAG", "Tags", "OperationId"}

type vBanDoc struct {
	root   string
	files  map[string]string
	kinds  []int // directive kinds that occur anywhere in the project text
	faulty bool  // rejected also without any ban (its last directive is faulty in itself)
}

var vBanDocs = []vBanDoc{
	{ // 0: HTTP kitchen sink, MACRO + PASTE, INCLUDE
		root: "JSIGHT 0.3\n" +
			"INFO\n  Title \"T\"\n  Version 1\n  Description\n    text\n" +
			"SERVER @s\n  BaseUrl \"https://h\"\n" +
			"TAG @t\n" +
			"TYPE @cat\n{\"id\": 1}\n" +
			"ENUM @e\n[1, 2]\n" +
			"URL /cats\n" +
			"  GET\n    Tags @t\n    OperationId getCats\n    Query\n    {\"q\": 1}\n    Request\n      Headers\n      {\"H\": \"v\"}\n      Body any\n    200 @cat\n    404 any\n" +
			"  POST\n    PASTE @m\n" +
			"URL /cats/{id}\n  Path\n  {\"id\": 1}\n  PUT\n    200 any\n" +
			"MACRO @m\n(\n  200\n    Body any\n)\n" +
			"INCLUDE inc.jst\n",
		files: map[string]string{"inc.jst": "PATCH /dogs\n  200 any\nDELETE /dogs\n  200 any\n"},
		kinds: []int{kJSIGHT, kINFO, kTitle, kVersion, kDescription, kSERVER, kBaseUrl, kTAG, kTYPE, kENUM, kURL, kGET, kTags, kOperationId,
			kQuery, kRequest, kHeaders, kBody, kResponse, kPOST, kPASTE, kPath, kPUT, kMACRO, kINCLUDE, kPATCH, kDELETE},
	},
	{ // 1: JSON-RPC
		root:  "JSIGHT 0.3\nURL /rpc\n  Protocol json-rpc-2.0\n  Method m\n    Description\n      d\n    Params\n    {\"a\": 1}\n    Result\n    {\"b\": 2}\n",
		kinds: []int{kJSIGHT, kURL, kProtocol, kMethod, kDescription, kParams, kResult},
	},
	{ // 2: a directive that only occurs inside a MACRO body that is never pasted, and one only in an included file
		root:  "JSIGHT 0.3\nGET /a\n  200 any\nMACRO @unused\n(\n  TYPE @x any\n)\nINCLUDE sub/i.jst\n",
		files: map[string]string{"sub/i.jst": "TAG @only\n"},
		kinds: []int{kJSIGHT, kGET, kResponse, kMACRO, kTYPE, kINCLUDE, kTAG},
	},
	{ // 3: MACRO, PASTE and a never-pasted macro body written in INCLUDEd files only
		root: "JSIGHT 0.3\nGET /a\n  200 any\nINCLUDE sub/p.jst\nINCLUDE sub/m.jst\n",
		files: map[string]string{
			"sub/p.jst": "POST /b\n  PASTE @m\n",
			"sub/m.jst": "MACRO @m\n(\n  404 any\n)\nMACRO @unused\n(\n  ENUM @e\n  [1]\n  SERVER @s\n    BaseUrl \"h\"\n)\n",
		},
		kinds: []int{kJSIGHT, kGET, kResponse, kINCLUDE, kPOST, kPASTE, kMACRO, kENUM, kSERVER, kBaseUrl},
	},
	// 4..7: projects whose LAST directive is faulty in itself (they are rejected without any ban): when
	// that directive is banned, the not-allowed error is due, not the complaint about its arguments
	{root: "JSIGHT 0.3\nGET /a\n  200 any\nINCLUDE missing.jst\n", kinds: []int{kJSIGHT, kGET, kResponse, kINCLUDE}, faulty: true},
	{root: "JSIGHT 0.3\nGET /a\n  200 any\nTYPE cat\n{}\n", kinds: []int{kJSIGHT, kGET, kResponse, kTYPE}, faulty: true},
	{root: "JSIGHT 0.3\nGET /a\n  200 any\nPOST /x /y\n", kinds: []int{kJSIGHT, kGET, kResponse, kPOST}, faulty: true},
	{root: "JSIGHT 0.3\nGET /a\n  200\n    Body any\n    Headers\n    {\n", kinds: []int{kJSIGHT, kGET, kResponse, kBody, kHeaders}, faulty: true},
}

func vBuildBanDoc(doc vBanDoc, oo ...Option) (*JApiCore, *jerr.JApiError) {
	vDir(vPath("/vfs/p"))
	for n, c := range doc.files {
		vFile(vPath("/vfs/p/"+n), []byte(c))
	}
	c := NewJApiCore(fs.NewFile(vPath("/vfs/p/root.jst"), []byte(doc.root)), oo...)
	return c, c.BuildCatalog()
}

// HBanned (C19): a fixed project, the banned set {b1, b2} symbolic over all 31 kinds.
func HBanned() {
	doc := vBanDocs[vParam("doc", 0)]
	b1 := vInt("b1", 0, kCount-1)
	b2 := vInt("b2", 0, kCount-1)

	// without the option
	c0, je0 := vBuildBanDoc(doc)
	vAssert((je0 != nil) == doc.faulty, "c19-fixture-document-verdict")
	// with the option
	c1, je := vBuildBanDoc(doc, WithBannedDirectives(directive.Enumeration(b1), directive.Enumeration(b2)))

	occurs := false
	for _, k := range doc.kinds {
		if k == b1 || k == b2 {
			occurs = true
		}
	}
	if !occurs && doc.faulty {
		vAssert(je != nil && je.Msg == je0.Msg && je.Index == je0.Index, "c19-ban-of-absent-directive-changes-the-error")
		vReach("unaffected")
		vObserve("same-error")
		return
	}
	if !occurs {
		vAssert(je == nil, "c19-ban-of-absent-directive-changes-the-result")
		vAssert(len(c1.directivesWithPastes) == len(c0.directivesWithPastes), "c19-ban-of-absent-directive-changes-the-tree")
		vAssert(c1.catalog.Interactions.Len() == c0.catalog.Interactions.Len(), "c19-ban-of-absent-directive-changes-the-catalog")
		vReach("unaffected")
		vObserve("ok")
		return
	}
	vAssert(je != nil, "c19-banned-directive-accepted")
	vAssert(strings.HasPrefix(je.Msg, jerr.DirectiveNotAllowed), "c19-banned-directive-wrong-error")
	// located on a directive of a banned kind
	text := string(je.File.Content().Data())
	at := int(je.Index)
	onBanned := false
	for _, b := range []int{b1, b2} {
		if b == kResponse {
			if at+3 <= len(text) && text[at] >= '1' && text[at] <= '5' && text[at+1] >= '0' && text[at+1] <= '9' && text[at+2] >= '0' && text[at+2] <= '9' {
				onBanned = true
			}
		} else if strings.HasPrefix(text[at:], vSpecKeywordText[b]) {
			onBanned = true
		}
	}
	vAssert(onBanned, "c19-error-not-on-a-banned-directive")
	vReach("rejected")
	vObserve("err", at)
}

func init() { vRegister("HBanned", HBanned) }
