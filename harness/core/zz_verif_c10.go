package core

import (
	"github.com/jsightapi/jsight-schema-core/bytes"
	"github.com/jsightapi/jsight-schema-core/fs"

	"github.com/jsightapi/jsight-api-core/directive"
	"github.com/jsightapi/jsight-api-core/jerr"
)

// vEvent: one scanner-level event as core.next sees it.
type vEvent struct {
	close    bool // ')'
	kind     int
	hasPath  bool
	explicit bool   // followed by '('
	name     string // Name parameter (MACRO / PASTE)
}

// vDriveEvents feeds events to the real core exactly as core.next does and ends with processEOF.
func vDriveEvents(c *JApiCore, file *fs.File, evs []vEvent) (*jerr.JApiError, int) {
	for i, e := range evs {
		var je *jerr.JApiError
		if e.close {
			je = c.processContextEnd()
		} else {
			je = c.processCurrentDirective()
			if je == nil {
				d := directive.New(directive.Enumeration(e.kind), directive.NewCoords(file, bytes.Index(10*i+1), bytes.Index(10*i+3)))
				if e.hasPath {
					_ = d.SetNamedParameter("Path", "/p")
				}
				if e.name != "" {
					_ = d.SetNamedParameter("Name", e.name)
				}
				c.currentDirective = d
				if e.explicit {
					c.processContextBegin()
				}
			}
		}
		if je != nil {
			return je, i
		}
	}
	if je := c.processEOF(); je != nil {
		return je, len(evs)
	}
	return nil, -1
}

type vNode struct {
	kind     int
	parent   int // pre-order index of the parent, -1 = root
	explicit bool
}

func vFlatten(roots []*directive.Directive) []vNode {
	var out []vNode
	var walk func(d *directive.Directive, parent int)
	walk = func(d *directive.Directive, parent int) {
		me := len(out)
		out = append(out, vNode{kind: int(d.Type()), parent: parent, explicit: d.HasExplicitContext})
		for _, ch := range d.Children {
			walk(ch, me)
		}
	}
	for _, r := range roots {
		walk(r, -1)
	}
	return out
}

func vExpand(c *JApiCore) *jerr.JApiError {
	if je := c.collectMacro(); je != nil {
		return je
	}
	if je := c.checkMacroForRecursion(); je != nil {
		return je
	}
	return c.processPaste()
}

// HPaste (C10): prefix P (np <= 1 directives) and body S (ns directives), all
// kinds / flags symbolic. Run 1 scans  P S  in place; run 2 scans
// MACRO @m ( S )  and  P PASTE @m ; after MACRO/PASTE processing both must give the same tree.
func HPaste() {
	np, ns, nf := vParam("np", 1), vParam("ns", 1), vParam("nf", 0)
	maxKind := vParam("maxkind", kCount-1)
	subset := vC11Subsets[vParam("subset", 0)]
	mk := func(id string) vEvent {
		e := vEvent{hasPath: vBool("path" + id), explicit: vBool("open" + id)}
		if len(subset) == 0 {
			e.kind = vInt("kind"+id, 0, maxKind)
		} else {
			e.kind = subset[vInt("kind"+id, 0, len(subset)-1)]
		}
		// MACRO / PASTE / INCLUDE inside the pieces are the business of the macro-graph harness
		vAssume(e.kind != kMACRO && e.kind != kPASTE && e.kind != kINCLUDE)
		return e
	}
	var P, S, F []vEvent
	for i := 0; i < nf; i++ {
		f := mk("f" + string(rune('0'+i)))
		vAssume(!f.explicit) // the following directive is a plain one
		F = append(F, f)
	}
	for i := 0; i < np; i++ {
		P = append(P, mk("p"+string(rune('0'+i))))
	}
	for i := 0; i < ns; i++ {
		S = append(S, mk("s"+string(rune('0'+i))))
	}
	// explicit contexts opened inside S are closed at the end of S (innermost first); P's at the very end
	closeAll := func(evs []vEvent) []vEvent {
		var out []vEvent
		for _, e := range evs {
			if e.explicit {
				out = append(out, vEvent{close: true})
			}
		}
		return out
	}
	file := fs.NewFile("/vfs/root.jst", make([]byte, 200))

	// run 1: in place
	var ev1 []vEvent
	ev1 = append(ev1, P...)
	ev1 = append(ev1, S...)
	ev1 = append(ev1, closeAll(S)...)
	ev1 = append(ev1, F...)
	ev1 = append(ev1, closeAll(P)...)
	c1 := NewJApiCore(file)
	c1.scanner.SetCurrentIndex(5)
	je1, _ := vDriveEvents(c1, file, ev1)
	if je1 == nil {
		je1 = vExpand(c1)
	}

	// run 2: through a macro
	var ev2 []vEvent
	ev2 = append(ev2, vEvent{kind: kMACRO, explicit: true, name: "@m"})
	ev2 = append(ev2, S...)
	ev2 = append(ev2, closeAll(S)...)
	ev2 = append(ev2, vEvent{close: true})
	ev2 = append(ev2, P...)
	ev2 = append(ev2, vEvent{kind: kPASTE, name: "@m"})
	ev2 = append(ev2, F...)
	ev2 = append(ev2, closeAll(P)...)
	c2 := NewJApiCore(file)
	c2.scanner.SetCurrentIndex(5)
	je2, at2 := vDriveEvents(c2, file, ev2)
	// The rewrite must itself be a legal document: S legal inside a MACRO body and
	// PASTE admitted by the context table at the call site (it is not, e.g., inside TAG).
	_ = at2
	vAssume(je2 == nil)
	je2 = vExpand(c2)

	vAssert((je1 == nil) == (je2 == nil), "c10-paste-changes-accept-reject")
	if je1 != nil {
		vAssert(vClassify(je1) == vClassify(je2), "c10-paste-changes-error-class")
		vReach("both-rejected")
		vObserve("rejected", vClassify(je1))
		return
	}
	t1, t2 := vFlatten(c1.directivesWithPastes), vFlatten(c2.directivesWithPastes)
	vAssert(len(t1) == len(t2), "c10-paste-changes-number-of-directives")
	for i := range t1 {
		vAssert(t1[i].kind == t2[i].kind, "c10-paste-changes-directive-order")
		vAssert(t1[i].parent == t2[i].parent, "c10-paste-changes-nesting")
		vAssert(t1[i].explicit == t2[i].explicit, "c10-paste-changes-explicit-flag")
	}
	for _, nd := range t2 {
		vAssert(nd.kind != kMACRO && nd.kind != kPASTE, "c10-macro-or-paste-survives-expansion")
	}
	vReach("same-tree")
	vObserve("same", len(t1))
}

func init() { vRegister("HPaste", HPaste) }
