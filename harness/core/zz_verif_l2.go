package core

import (
	"strings"

	"github.com/jsightapi/jsight-schema-core/fs"
)

// HScanProject: scanProject (scanner + directive tree construction + INCLUDE
// resolution in a virtual file system) over an all-symbolic root file.
func HScanProject() {
	n := vParam("n", 3)
	data := append([]byte(vPrefixes[vParam("pre", 0)]), vBytes("d", n)...)
	vDir(vPath("/vfs/p"))
	vFile(vPath("/vfs/p/a"), []byte("GET /a\n 200 any\n"))
	vFile(vPath("/vfs/p/e"), []byte{})
	vDir(vPath("/vfs/p/d"))
	f := fs.NewFile(vPath("/vfs/p/root.jst"), data)
	c := NewJApiCore(f)
	je := c.scanProject()
	if je != nil {
		vAssert(je.File != nil, "error-without-file")
		vAssert(int(je.Index) <= je.File.Content().Len(), "error-index-outside-file")
		vAssert(strings.HasPrefix(je.File.Name(), vPath("/vfs/p/")), "error-file-not-in-project")
		vObserve("err", int(je.Index), je.Msg)
		return
	}
	vObserve("ok", len(c.directives))
}

func init() { vRegister("HScanProject", HScanProject) }

// HBuild: the whole build (scan, compile, catalog) over prefix ++ symbolic bytes.
func HBuild() {
	n := vParam("n", 2)
	data := append([]byte(vPrefixes[vParam("pre", 0)]), vBytes("d", n)...)
	vDir(vPath("/vfs/p"))
	vFile(vPath("/vfs/p/a"), []byte("GET /a\n 200 any\n"))
	vFile(vPath("/vfs/p/e"), []byte{})
	vDir(vPath("/vfs/p/d"))
	f := fs.NewFile(vPath("/vfs/p/root.jst"), data)
	c := NewJApiCore(f)
	je := c.BuildCatalog()
	if je != nil {
		vAssert(je.File != nil, "error-without-file")
		vAssert(int(je.Index) <= je.File.Content().Len(), "error-index-outside-file")
		vAssert(strings.HasPrefix(je.File.Name(), vPath("/vfs/p/")), "error-file-not-in-project")
		vObserve("err", int(je.Index), je.Msg)
		return
	}
	vObserve("ok", len(c.directivesWithPastes))
}

func init() { vRegister("HBuild", HBuild) }
