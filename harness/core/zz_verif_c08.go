package core

import (
	"strings"

	"github.com/jsightapi/jsight-schema-core/fs"

	"github.com/jsightapi/jsight-api-core/jerr"
	"github.com/jsightapi/jsight-api-core/scanner"
)

// Skeleton documents for the layout checks (C08) and the include split (C09).
var vLayoutDocs = []string{
	vBanDocs[0].root, // HTTP kitchen sink (with MACRO/PASTE/INCLUDE)
	vBanDocs[1].root, // JSON-RPC
	vHoleDocs[2], // descriptions, regex/enum/any, explicit contexts, CRLF tail, comments
	// a rejected document (rule error at a known place): duplicate path parameter
	"JSIGHT 0.3\nGET /a/{id}/{id}\n  200 any\n",
	// a rejected document: incorrect context
	"JSIGHT 0.3\nGET /a\n  200 any\n  Title \"x\"\n",
}

type vSitePos struct {
	pos  int
	kind int // 0 = line start between directives, 1 = end of a line (before the line end)
}

// vTriviaSites finds the positions of doc where trivia may be inserted without
// touching a body, a description text or an annotation: computed from the
// skeleton's own lexemes (concrete run of the scanner; not part of the oracle).
func vTriviaSitesScan(doc string) []vSitePos {
	f := fs.NewFile("/vfs/skeleton.jst", []byte(doc))
	s := scanner.NewJApiScanner(f)
	type lx struct {
		t    scanner.LexemeType
		b, e int
	}
	var lex []lx
	for i := 0; i < 10000; i++ {
		l, je := s.Next()
		if je != nil || l == nil {
			break
		}
		lex = append(lex, lx{l.Type(), int(l.Begin()), int(l.End())})
	}
	inBody := func(p int) bool {
		for _, l := range lex {
			switch l.t {
			case scanner.Schema, scanner.Text, scanner.Enum, scanner.Json, scanner.Annotation:
				if p >= l.b && p <= l.e+1 {
					return true
				}
			}
		}
		return false
	}
	nextLex := func(p int) (scanner.LexemeType, bool) {
		for _, l := range lex {
			if l.b >= p {
				return l.t, true
			}
		}
		return 0, false
	}
	var out []vSitePos
	for p := 0; p < len(doc); p++ {
		if doc[p] != '\n' || inBody(p) {
			continue
		}
		if p > 0 && doc[p-1] == '\r' {
			continue // CRLF tail: keep sites on LF lines only
		}
		// end-of-line site: only after a complete keyword/parameter/parenthesis line
		if p > 0 && doc[p-1] != '\n' {
			out = append(out, vSitePos{p, 1})
		}
		// line-start site: the next lexeme is a keyword, ')' or the end of the file
		t, ok := nextLex(p + 1)
		if !inBody(p+1) && (!ok || t == scanner.Keyword || t == scanner.ContextExplicitClosing) {
			out = append(out, vSitePos{p + 1, 0})
		}
	}
	return out
}

func vMsgClass(je *jerr.JApiError) string {
	m := je.Msg
	if i := strings.IndexByte(m, '"'); i >= 0 {
		m = m[:i]
	}
	return m
}

func vBuildProject(root string, files map[string]string) (*JApiCore, *jerr.JApiError) {
	vDir(vPath("/vfs/p"))
	for n, c := range files {
		vFile(vPath("/vfs/p/"+n), []byte(c))
	}
	c := NewJApiCore(fs.NewFile(vPath("/vfs/p/root.jst"), []byte(root)))
	return c, c.BuildCatalog()
}

var vLayoutFiles = map[string]string{"inc.jst": vBanDocs[0].files["inc.jst"]}

// HLayoutTrivia (C08): skeleton vs skeleton with k symbolic trivia bytes inserted at one legal site.
func HLayoutTrivia() {
	doc := vLayoutDocs[vParam("doc", 0)]
	sites := vTriviaSites(doc)
	si := vParam("site", 0)
	if si >= len(sites) {
		vReach("no-such-site")
		return
	}
	site := sites[si]
	k := vParam("k", 2)
	t := vBytes("t", k)
	if site.kind == 0 {
		// a whole extra line: blanks, optionally a '#' comment, then a line end
		vAssume(t[k-1] == '\n' || t[k-1] == '\r')
		inComment := false
		for i := 0; i < k-1; i++ {
			if inComment {
				vAssume(t[i] != '\n' && t[i] != '\r' && t[i] != 0)
				continue
			}
			vAssume(t[i] == ' ' || t[i] == '\t' || t[i] == '#' || t[i] == '\n')
			if t[i] == '#' {
				inComment = true
				if i+2 < k-1 {
					vAssume(!(t[i+1] == '#' && t[i+2] == '#')) // not a block comment opener
				}
			}
		}
	} else {
		// trailing blanks and/or a comment before the line end
		vAssume(t[0] == ' ' || t[0] == '\t')
		inComment := false
		for i := 1; i < k; i++ {
			if inComment {
				vAssume(t[i] != '\n' && t[i] != '\r' && t[i] != 0)
				continue
			}
			vAssume(t[i] == ' ' || t[i] == '\t' || t[i] == '#')
			if t[i] == '#' {
				inComment = true
				if i+2 < k {
					vAssume(!(t[i+1] == '#' && t[i+2] == '#'))
				}
			}
		}
	}
	variant := doc[:site.pos] + string(t) + doc[site.pos:]
	// composition with a whole-document rewrite of the line endings (conv 1: CRLF, 2: CR),
	// applied to the skeleton and to the variant alike
	convMode := vParam("conv", 0)
	conv := func(s string) string {
		if convMode == 0 {
			return s
		}
		s = strings.ReplaceAll(s, "\r\n", "\n")
		if convMode == 1 {
			return strings.ReplaceAll(s, "\n", "\r\n")
		}
		return strings.ReplaceAll(s, "\n", "\r")
	}
	k = len(conv(doc[:site.pos]+string(t))) - len(conv(doc[:site.pos]))
	sitePos := len(conv(doc[:site.pos]))
	doc, variant = conv(doc), conv(variant)
	cA, jeA := vBuildProject(doc, vLayoutFiles)
	cB, jeB := vBuildProject(variant, vLayoutFiles)
	if vParam("debug", 0) == 1 {
		for _, je := range []*jerr.JApiError{jeA, jeB} {
			if je != nil {
				vObserve("err", je.Msg, int(je.Index), je.File.Name())
			}
		}
	}
	vAssert((jeA == nil) == (jeB == nil), "c08-trivia-changes-accept-reject")
	if jeA != nil {
		vAssert(vMsgClass(jeA) == vMsgClass(jeB), "c08-trivia-changes-error-class")
		if strings.HasSuffix(jeA.File.Name(), "/root.jst") {
			shift := 0
			if int(jeA.Index) >= sitePos {
				shift = k
			}
			vAssert(int(jeB.Index) == int(jeA.Index)+shift, "c08-error-does-not-move-with-the-text")
		}
		vReach("both-rejected")
		vObserve("rejected", site.pos, site.kind)
		return
	}
	vSameDigest(vDigestDeep(cA), vDigestDeep(cB), "c08-trivia-changes-catalog")
	vReach("same-catalog")
	vObserve("same", site.pos, site.kind)
}

// HLayoutWhole (C08): whole-document rewrites: line endings (LF -> CRLF / CR),
// uniform re-indentation by symbolic blanks, a trailing blank on every line.
func HLayoutWhole() {
	doc := vLayoutDocs[vParam("doc", 0)]
	mode := vParam("mode", 0)
	lines := strings.SplitAfter(strings.ReplaceAll(doc, "\r\n", "\n"), "\n")
	base := strings.Join(lines, "")
	var variant string
	switch mode {
	case 0: // CRLF
		variant = strings.ReplaceAll(base, "\n", "\r\n")
	case 1: // CR
		variant = strings.ReplaceAll(base, "\n", "\r")
	case 2: // uniform indentation (1..2 symbolic blanks in front of every line)
		ind := vBytes("ind", vParam("k", 1))
		for _, c := range ind {
			vAssume(c == ' ' || c == '\t')
		}
		var sb strings.Builder
		for _, l := range lines {
			if l != "" {
				sb.WriteString(string(ind) + l)
			}
		}
		variant = sb.String()
	case 3: // one symbolic trailing blank at the end of every line outside bodies and description texts
		b := vByte("b")
		vAssume(b == ' ' || b == '\t')
		eol := map[int]bool{}
		for _, st := range vTriviaSites(base) {
			if st.kind == 1 {
				eol[st.pos] = true
			}
		}
		var sb strings.Builder
		for i := 0; i < len(base); i++ {
			if eol[i] {
				sb.WriteByte(b)
			}
			sb.WriteByte(base[i])
		}
		variant = sb.String()
	}
	cA, jeA := vBuildProject(base, vLayoutFiles)
	cB, jeB := vBuildProject(variant, vLayoutFiles)
	vAssert((jeA == nil) == (jeB == nil), "c08-rewrite-changes-accept-reject")
	if jeA != nil {
		vAssert(vMsgClass(jeA) == vMsgClass(jeB), "c08-rewrite-changes-error-class")
		vReach("both-rejected")
		vObserve("rejected")
		return
	}
	vSameDigest(vDigestDeep(cA), vDigestDeep(cB), "c08-rewrite-changes-catalog")
	vReach("same-catalog")
	vObserve("same")
}

func init() {
	vRegister("HLayoutTrivia", HLayoutTrivia)
	vRegister("HLayoutWhole", HLayoutWhole)
}
