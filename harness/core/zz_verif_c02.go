package core

import (
	"strconv"
	"strings"
)

// ---- abstract API model (C02) ----

type vMResponse struct {
	code    string
	body    int // 0 any, 1 reference to @ty, 2 inline jsight schema
	headers bool
	ann     bool
}

type vMInteraction struct {
	method   string
	path     string
	ann      bool
	descr    bool
	query    int // 0 none, 1 body only, 2 noFormat, 3 example, 4 example + noFormat, 5 htmlFormEncoded written out
	request  int // 0 none, 1 body any, 2 body jsight, 3 headers + body any, 4 body any + headers (Body written first)
	useTag   int // 0 no Tags directive, 1 Tags @t1, 2 Tags @t2, 3 Tags @t2 @t1, 4 Tags @t1 @t2
	opID     bool
	explicit bool // method context written with ( )
	idx      int
	resp     []vMResponse
}

type vModel struct {
	info, infoDescr bool
	infoTitle       bool // INFO has a Title (else only Version / Description)
	infoVersion     bool
	rpc             int // 0 no JSON-RPC method; 1 Params+Result; 2 Params only; 3 Result + Description + Tags
	server          bool
	tag, tag2       bool
	typ, typ2       bool
	enum, enum2     bool
	server2         bool
	urlTag          int // grouped only: 0 none, 1 URL-level Tags @t1, 2 @t2
	grouped         bool // both interactions under one URL directive (same path)
	blockAnn        bool // annotations written as /* */
	layout          int  // 0 as rendered; 1 CRLF; 2 CR; 3 comments and blank lines before top-level directives; 4 definitions in an INCLUDEd file; 5 interactions in a MACRO pasted at root; 6 quoted paths; 7 every line indented by a tab and a blank
	ints            []vMInteraction
}

// vMTagNames: the tag names a Tags choice writes, in the order written.
func vMTagNames(t int) []string {
	switch t {
	case 1:
		return []string{"@t1"}
	case 2:
		return []string{"@t2"}
	case 3:
		return []string{"@t2", "@t1"}
	case 4:
		return []string{"@t1", "@t2"}
	}
	return nil
}

var vMMethods = []string{"GET", "POST", "PUT", "PATCH", "DELETE"}
var vMPaths = []string{"/a", "/a/{id}", "/b"}

// Feature selection: the model has ~25 (n=1) / ~45 (n=2) feature choices; a job
// makes the features selected by the bit mask `mask` symbolic (the solver explores
// all their combinations) and fixes the others to the bits of `fixed`.
var vFeatIdx, vFeatMask, vFeatFixed, vFeatGroup int

// Feature groups: semantically related features that are made symbolic together.
var vFeatGroups = [][]string{
	nil,
	{"tag", "tag2", "useTag0", "useTag1", "grouped", "urlTag", "path0", "path1"},
	{"info", "infoDescr", "infoTitle", "infoVersion", "server", "server2", "typ", "typ2", "enum", "enum2", "tag", "blockAnn"},
	{"nresp0", "swap0", "body0a", "hdr0a", "rann0a", "body0b", "hdr0b", "rann0b", "typ"},
	{"ann0", "descr0", "query0", "request0", "opid0", "explicit0"},
	{"grouped", "explicit0", "explicit1", "path0", "path1", "method0", "method1"},
	{"nresp1", "swap1", "body1a", "hdr1a", "rann1a", "body1b", "hdr1b", "request1", "descr1"},
	{"rpc", "tag", "tag2", "useTag0", "grouped", "urlTag", "path0", "path1", "blockAnn"},
	{"method0", "path0", "query0", "explicit0", "request0", "enum", "enum2"},
	{"layout", "grouped", "explicit0", "blockAnn", "typ", "enum", "rpc", "descr0", "tag2"},
}

func vFeatSymbolic(name string, i uint) bool {
	if vFeatMask>>i&1 == 1 {
		return true
	}
	for _, n := range vFeatGroups[vFeatGroup] {
		if n == name {
			return true
		}
	}
	return false
}

func vFeatBool(name string) bool {
	i := uint(vFeatIdx % 60)
	vFeatIdx++
	if vFeatSymbolic(name, i) {
		return vBool(name)
	}
	return vFeatFixed>>i&1 == 1
}

func vFeatInt(name string, lo, hi int) int {
	i := uint(vFeatIdx % 60)
	vFeatIdx++
	if vFeatSymbolic(name, i) {
		return vInt(name, lo, hi)
	}
	return lo + (vFeatFixed>>i)%(hi-lo+1)
}

func vModelSymbolic(n int) vModel {
	vFeatIdx, vFeatMask, vFeatFixed, vFeatGroup = 0, vParam("mask", 0), vParam("fixed", 0), vParam("group", 0)
	var m vModel
	m.info, m.infoDescr = vFeatBool("info"), vFeatBool("infoDescr")
	m.infoTitle, m.infoVersion = vFeatBool("infoTitle"), vFeatBool("infoVersion")
	if !m.infoTitle && !m.infoVersion && !m.infoDescr {
		m.infoTitle = true // an empty INFO is not a model
	}
	m.rpc = vFeatInt("rpc", 0, 3)
	m.server, m.tag, m.typ, m.enum = vFeatBool("server"), vFeatBool("tag"), vFeatBool("typ"), vFeatBool("enum")
	m.server2, m.tag2, m.typ2, m.enum2 = vFeatBool("server2"), vFeatBool("tag2"), vFeatBool("typ2"), vFeatBool("enum2")
	m.blockAnn = vFeatBool("blockAnn")
	for i := 0; i < n; i++ {
		id := string(rune('0' + i))
		in := vMInteraction{
			method: vMMethods[vFeatInt("method"+id, 0, len(vMMethods)-1)],
			path:   vMPaths[vFeatInt("path"+id, 0, len(vMPaths)-1)],
			ann:    vFeatBool("ann" + id), descr: vFeatBool("descr" + id), query: vFeatInt("query"+id, 0, 5),
			request: vFeatInt("request"+id, 0, 4), useTag: vFeatInt("useTag"+id, 0, 4), opID: vFeatBool("opid" + id),
			explicit: vFeatBool("explicit" + id), idx: i,
		}
		// dependent features are coerced (not assumed), so that every feature vector is a model
		if (!m.tag && in.useTag == 1) || (!m.tag2 && in.useTag == 2) || (in.useTag >= 3 && !(m.tag && m.tag2)) {
			in.useTag = 0
		}
		nr := vFeatInt("nresp"+id, 1, 2)
		codes := []string{"200", "404"}
		if vFeatBool("swap" + id) {
			codes = []string{"404", "200"}
		}
		for r := 0; r < nr; r++ {
			rid := id + string(rune('a'+r))
			rs := vMResponse{code: codes[r], body: vFeatInt("body"+rid, 0, 3), headers: vFeatBool("hdr" + rid), ann: vFeatBool("rann" + rid)}
			if !m.typ && (rs.body == 1 || rs.body == 3) {
				rs.body = 0
			}
			in.resp = append(in.resp, rs)
		}
		m.ints = append(m.ints, in)
	}
	if n == 2 {
		// distinct interactions: the second one moves to the next method when they coincide
		if m.ints[0].method == m.ints[1].method && m.ints[0].path == m.ints[1].path {
			for k, mm := range vMMethods {
				if mm == m.ints[1].method {
					m.ints[1].method = vMMethods[(k+1)%len(vMMethods)]
					break
				}
			}
		}
		m.grouped = vFeatBool("grouped") && m.ints[0].path == m.ints[1].path
		if m.grouped {
			m.urlTag = vFeatInt("urlTag", 0, 2)
			if (!m.tag && m.urlTag == 1) || (!m.tag2 && m.urlTag == 2) {
				m.urlTag = 0
			}
		}
	}
	m.layout = vFeatInt("layout", 0, 7)
	return m
}

// vApplyLayout rewrites the rendered document in one of the ways the language defines as
// meaning-preserving (C02 quantifies over renderings); files = INCLUDEd files.
func vApplyLayout(doc string, layout int) (string, map[string]string) {
	lines := strings.SplitAfter(doc, "\n")
	top := func(l string) bool { return len(l) > 0 && l[0] >= 'A' && l[0] <= 'Z' }
	isDef := func(l string) bool {
		return strings.HasPrefix(l, "SERVER ") || strings.HasPrefix(l, "TAG ") || strings.HasPrefix(l, "TYPE ") || strings.HasPrefix(l, "ENUM ")
	}
	// [d0,d1): the block of definitions; [d1,len): JSON-RPC and HTTP interactions
	d0, d1 := -1, len(lines)
	for i, l := range lines {
		if !top(l) {
			continue
		}
		if isDef(l) {
			if d0 < 0 {
				d0 = i
			}
		} else if d0 >= 0 && d1 == len(lines) {
			d1 = i
		}
	}
	if d0 < 0 {
		// no definitions: the interactions start at the first top-level line after JSIGHT / INFO
		for i, l := range lines {
			if top(l) && !strings.HasPrefix(l, "JSIGHT") && !strings.HasPrefix(l, "INFO") {
				d1 = i
				break
			}
		}
		d0 = d1
	}
	switch layout {
	case 1:
		return strings.ReplaceAll(doc, "\n", "\r\n"), nil
	case 2:
		return strings.ReplaceAll(doc, "\n", "\r"), nil
	case 3:
		var sb strings.Builder
		// only after a directive line: after a Description text a comment is text, after a schema
		// body it is a comment of the schema language (part of the body text)
		kws := []string{"GET", "POST", "PUT", "PATCH", "DELETE", "URL", "200", "404", "Tags", "OperationId", "Request", "Body", "TAG", "SERVER",
			"BaseUrl", "Title", "Version", "INFO", "Protocol", "Method", ")", "PASTE", "JSIGHT"}
		directiveLine := func(l string) bool {
			t := strings.TrimLeft(l, " ")
			for _, k := range kws {
				if strings.HasPrefix(t, k+" ") || strings.HasPrefix(t, k+"\n") {
					return true
				}
			}
			return false
		}
		for i, l := range lines {
			if i > 0 && top(l) && directiveLine(lines[i-1]) {
				sb.WriteString("\n# about the next one ## really\n \t\n### block {\nstill ( ###\n")
			}
			sb.WriteString(l)
		}
		return sb.String(), nil
	case 4:
		if d0 == d1 {
			return doc, nil
		}
		return strings.Join(lines[:d0], "") + "INCLUDE defs/defs.jst\n" + strings.Join(lines[d1:], ""),
			map[string]string{"defs/defs.jst": strings.Join(lines[d0:d1], "")}
	case 5:
		if d1 == len(lines) {
			return doc, nil
		}
		return strings.Join(lines[:d1], "") + "MACRO @all\n(\n" + vIndent(strings.Join(lines[d1:], ""), 2) + ")\nPASTE @all\n", nil
	case 7:
		var sb strings.Builder
		for _, l := range lines {
			sb.WriteString("\t " + l)
		}
		return sb.String(), nil
	case 6:
		var sb strings.Builder
		for _, l := range lines {
			t := strings.TrimLeft(l, " ")
			for _, kw := range []string{"URL ", "GET ", "POST ", "PUT ", "PATCH ", "DELETE "} {
				if strings.HasPrefix(t, kw) && strings.HasPrefix(t[len(kw):], "/") &&
					!strings.HasPrefix(t[len(kw):], "/*") && !strings.HasPrefix(t[len(kw):], "//") { // a path, not an annotation
					rest := t[len(kw):]
					e := strings.IndexAny(rest, " \n")
					l = l[:len(l)-len(t)] + kw + "\"" + rest[:e] + "\"" + rest[e:]
				}
			}
			sb.WriteString(l)
		}
		return sb.String(), nil
	}
	return doc, nil
}

func (m vModel) annotation(text string) string {
	if m.blockAnn {
		return " /* " + text + " */"
	}
	return " // " + text
}

// vRender writes the model as a JSight document.
func vRender(m vModel) string {
	var sb strings.Builder
	sb.WriteString("JSIGHT 0.3\n")
	if m.info {
		sb.WriteString("INFO\n")
		if m.infoTitle {
			sb.WriteString("  Title \"The API\"\n")
		}
		if m.infoVersion {
			sb.WriteString("  Version 1.2\n")
		}
		if m.infoDescr {
			sb.WriteString("  Description\n    About\n    the API\n")
		}
	}
	if m.server {
		sb.WriteString("SERVER @prod" + m.annotation("production") + "\n  BaseUrl \"https://api.example.com\"\n")
	}
	if m.server2 {
		sb.WriteString("SERVER @test\n  BaseUrl \"https://test.example.com\"\n")
	}
	if m.tag {
		sb.WriteString("TAG @t1" + m.annotation("first tag") + "\n")
	}
	if m.tag2 {
		sb.WriteString("TAG @t2\n  Description\n    second\n")
	}
	if m.typ {
		sb.WriteString("TYPE @ty" + m.annotation("a type") + "\n{\n  \"a\": 1\n}\n")
	}
	if m.typ2 {
		sb.WriteString("TYPE @ty2 regex" + m.annotation("re type") + "\n/z+/\n")
	}
	if m.enum {
		sb.WriteString("ENUM @en\n[\n  \"x\", // ex\n  \"y\"\n]\n")
	}
	if m.enum2 {
		sb.WriteString("ENUM @en2" + m.annotation("second enum") + "\n[\n  1, // one\n  true, // yes\n  null // nothing\n]\n")
	}
	writeInt := func(in vMInteraction, ind string, withPath bool) {
		line := ind + in.method
		if withPath {
			line += " " + in.path
		}
		if in.ann {
			line += m.annotation(in.method + " note")
		}
		sb.WriteString(line + "\n")
		ci := ind + "  "
		if in.explicit {
			sb.WriteString(ind + "(\n")
		}
		if in.useTag > 0 {
			sb.WriteString(ci + "Tags " + strings.Join(vMTagNames(in.useTag), " ") + "\n")
		}
		if in.opID {
			sb.WriteString(ci + "OperationId op" + in.method + strconv.Itoa(in.idx) + "\n")
		}
		if in.descr {
			sb.WriteString(ci + "Description\n" + ci + "  what " + in.method + "\n" + ci + "  does\n")
		}
		if in.query > 0 {
			qp := []string{"", "", " noFormat", " \"q=1\"", " \"q=1\" noFormat", " htmlFormEncoded"}[in.query]
			sb.WriteString(ci + "Query" + qp + "\n" + ci + "{\n" + ci + "  \"q\": 1\n" + ci + "}\n")
		}
		switch in.request {
		case 1:
			sb.WriteString(ci + "Request any\n")
		case 2:
			sb.WriteString(ci + "Request\n" + ci + "{\n" + ci + "  \"r\": true\n" + ci + "}\n")
		case 3:
			sb.WriteString(ci + "Request\n" + ci + "  Headers\n" + ci + "  {\n" + ci + "    \"X\": \"v\"\n" + ci + "  }\n" + ci + "  Body any\n")
		case 4:
			sb.WriteString(ci + "Request\n" + ci + "  Body any\n" + ci + "  Headers\n" + ci + "  {\n" + ci + "    \"X\": \"v\"\n" + ci + "  }\n")
		}
		for _, r := range in.resp {
			l := ci + r.code
			switch r.body {
			case 0:
				if !r.headers {
					l += " any"
				}
			case 1:
				if !r.headers {
					l += " @ty"
				}
			case 3:
				if !r.headers {
					l += " [@ty]"
				}
			}
			if r.ann {
				l += m.annotation("resp " + r.code)
			}
			sb.WriteString(l + "\n")
			if r.headers {
				sb.WriteString(ci + "  Headers\n" + ci + "  {\n" + ci + "    \"H\": \"w\"\n" + ci + "  }\n")
				switch r.body {
				case 0:
					sb.WriteString(ci + "  Body any\n")
				case 1:
					sb.WriteString(ci + "  Body @ty\n")
				case 2:
					sb.WriteString(ci + "  Body\n" + ci + "  {\n" + ci + "    \"ok\": 1\n" + ci + "  }\n")
				case 3:
					sb.WriteString(ci + "  Body [@ty]\n")
				}
			} else if r.body == 2 {
				sb.WriteString(ci + "{\n" + ci + "  \"ok\": 1\n" + ci + "}\n")
			}
		}
		if in.explicit {
			sb.WriteString(ind + ")\n")
		}
	}
	if m.rpc > 0 {
		sb.WriteString("URL /rpc\n  Protocol json-rpc-2.0\n  Method doIt" + m.annotation("rpc note") + "\n")
		if m.rpc == 3 {
			if m.tag {
				sb.WriteString("    Tags @t1\n")
			}
			sb.WriteString("    Description\n      rpc text\n")
		}
		if m.rpc != 3 {
			sb.WriteString("    Params\n    {\n      \"p\": 1\n    }\n")
		}
		if m.rpc != 2 {
			sb.WriteString("    Result\n    {\n      \"r\": 2\n    }\n")
		}
	}
	if m.grouped {
		sb.WriteString("URL " + m.ints[0].path + "\n")
		if m.urlTag > 0 {
			sb.WriteString("  Tags @t" + strconv.Itoa(m.urlTag) + "\n")
		}
		for _, in := range m.ints {
			writeInt(in, "  ", false)
		}
	} else {
		for _, in := range m.ints {
			writeInt(in, "", true)
		}
	}
	return sb.String()
}

// vExpectedDigest: what the catalog must say, computed from the model alone
// (same rendering conventions as vDigest).
func vExpectedDigest(m vModel) []string {
	var out []string
	add := func(parts ...string) { out = append(out, strings.Join(parts, " ")) }
	q := strconv.Quote
	add("jsight", "0.3")
	if m.info {
		d := "<nil>"
		if m.infoDescr {
			d = q("About\nthe API")
		}
		t, v := "", ""
		if m.infoTitle {
			t = "The API"
		}
		if m.infoVersion {
			v = "1.2"
		}
		add("info", q(t), q(v), d)
	}
	if m.server {
		add("server", "@prod", q("https://api.example.com"), q("production"))
	}
	if m.server2 {
		add("server", "@test", q("https://test.example.com"), q(""))
	}
	if m.typ {
		add("type", "@ty", q("a type"), "jsight", "{\"a\":1}")
	}
	if m.typ2 {
		add("type", "@ty2", q("re type"), "regex", "/z+/")
	}
	if m.enum {
		add("enum", "@en", q(""), "[\"x\",//ex\"y\"]")
	}
	if m.enum2 {
		add("enum", "@en2", q("second enum"), "[1,//onetrue,//yesnull//nothing]")
	}
	// tags: declared ones first, then path tags in the order of first use
	type tg struct {
		name, title, descr string
		ids                []string // HTTP interactions (the catalog groups a tag's interactions by protocol: HTTP first)
		rpc                []string // JSON-RPC interactions
	}
	var tags []*tg
	find := func(name string) *tg {
		for _, t := range tags {
			if t.name == name {
				return t
			}
		}
		return nil
	}
	if m.tag {
		tags = append(tags, &tg{name: "@t1", title: "first tag", descr: "<nil>"})
	}
	if m.tag2 {
		tags = append(tags, &tg{name: "@t2", title: "@t2", descr: q("second")})
	}
	// the tags of an interaction: its own Tags, else the URL's Tags, else the path tag
	tagOf := func(in vMInteraction) int {
		if in.useTag > 0 {
			return in.useTag
		}
		if m.grouped {
			return m.urlTag
		}
		return 0
	}
	if m.rpc > 0 {
		if m.rpc == 3 && m.tag {
			find("@t1").rpc = append(find("@t1").rpc, "json-rpc-2.0 doIt /rpc")
		} else {
			tags = append(tags, &tg{name: "@rpc", title: "/rpc", descr: "<nil>", rpc: []string{"json-rpc-2.0 doIt /rpc"}})
		}
	}
	for _, in := range m.ints {
		id := "http " + in.method + " " + in.path
		if t := tagOf(in); t > 0 {
			for _, n := range vMTagNames(t) {
				find(n).ids = append(find(n).ids, id)
			}
			continue
		}
		first := strings.Split(strings.TrimPrefix(in.path, "/"), "/")[0]
		name := "@" + first
		t := find(name)
		if t == nil {
			t = &tg{name: name, title: "/" + first, descr: "<nil>"}
			tags = append(tags, t)
		}
		t.ids = append(t.ids, id)
	}
	for _, t := range tags {
		add("tag", t.name, q(t.title), t.descr, "["+strings.Join(append(append([]string{}, t.ids...), t.rpc...), ",")+"]")
	}
	if m.rpc > 0 {
		tn, desc := "@rpc", "<nil>"
		if m.rpc == 3 {
			desc = q("rpc text")
			if m.tag {
				tn = "@t1"
			}
		}
		add("jsonrpc", "json-rpc-2.0 doIt /rpc", "json-rpc-2.0 doIt /rpc", "doIt", "tags="+tn, "ann="+q("rpc note"), "desc="+desc)
		if m.rpc != 3 {
			add("  params", "{\"p\":1}")
		}
		if m.rpc != 2 {
			add("  result", "{\"r\":2}")
		}
	}
	for _, in := range m.ints {
		id := "http " + in.method + " " + in.path
		tagName := "@" + strings.Split(strings.TrimPrefix(in.path, "/"), "/")[0]
		if t := tagOf(in); t > 0 {
			tagName = strings.Join(vMTagNames(t), ",")
		}
		ann, desc, opid := "<nil>", "<nil>", "<nil>"
		if in.ann {
			ann = q(in.method + " note")
		}
		if in.descr {
			desc = q("what " + in.method + "\ndoes")
		}
		if in.opID {
			opid = q("op" + in.method + strconv.Itoa(in.idx))
		}
		add("http", id, id, "tags="+tagName, "ann="+ann, "desc="+desc, "opid="+opid)
		if strings.Contains(in.path, "{") {
			add("  pathvars")
		}
		if in.query > 0 {
			format, example := "htmlFormEncoded", ""
			if in.query == 2 || in.query == 4 {
				format = "noFormat"
			}
			if in.query == 3 || in.query == 4 {
				example = "q=1"
			}
			add("  query", q(format), q(example), "{\"q\":1}")
		}
		switch in.request {
		case 1:
			add("  request-body", "binary", "any", "-")
		case 2:
			add("  request-body", "json", "jsight", "{\"r\":true}")
		case 3, 4:
			add("  request-headers", "{\"X\":\"v\"}")
			add("  request-body", "binary", "any", "-")
		}
		for _, r := range in.resp {
			ra := ""
			if r.ann {
				ra = "resp " + r.code
			}
			add("  response", r.code, q(ra))
			if r.headers {
				add("    headers", "{\"H\":\"w\"}")
			}
			switch r.body {
			case 0:
				add("    body", "binary", "any", "-", "", "")
			case 1:
				add("    body", "json", "jsight", "-", "", "@ty")
			case 2:
				add("    body", "json", "jsight", "{\"ok\":1}", "", "")
			case 3:
				add("    body", "json", "jsight", "-", "", "[@ty]")
			}
		}
	}
	return out
}

// vMObj: the emitter's content of a flat object body {"k": v, ...} — each property given
// as key, JSON token type, JSight type, scalar value as written.
func vMObj(props ...[4]string) string {
	s := "jsight <object/object"
	for _, p := range props {
		s += "<" + strconv.Quote(p[0]) + " " + p[1] + "/" + p[2] + " =" + strconv.Quote(p[3]) + ">"
	}
	return s + ">"
}

// vExpectedDeep: the emitter-level content of every schema and enum of the model
// (same order and conventions as vDigestDeep).
func vExpectedDeep(m vModel) []string {
	var out []string
	add := func(parts ...string) { out = append(out, strings.Join(parts, " ")) }
	q := strconv.Quote
	if m.typ {
		add("deep type", "@ty", q(""), vMObj([4]string{"a", "number", "integer", "1"}))
	}
	if m.typ2 {
		add("deep type", "@ty2", q(""), "regex "+q("z+"))
	}
	if m.enum {
		add("deep enum", "@en", q(""), `(:array(:string note="ex" ="x")(:string ="y"))`)
	}
	if m.enum2 {
		add("deep enum", "@en2", q(""), `(:array(:number note="one" ="1")(:boolean note="yes" ="true")(:null note="nothing" ="null"))`)
	}
	if m.rpc > 0 {
		id := "json-rpc-2.0 doIt /rpc"
		if m.rpc != 3 {
			add("deep params", id, vMObj([4]string{"p", "number", "integer", "1"}))
		}
		if m.rpc != 2 {
			add("deep result", id, vMObj([4]string{"r", "number", "integer", "2"}))
		}
	}
	for _, in := range m.ints {
		id := "http " + in.method + " " + in.path
		if strings.Contains(in.path, "{") {
			// a path parameter without a Path directive is described as a string of type "any"
			// (same content as in the repository's snapshots)
			add("deep pathvars", id, "jsight <object/object<\"id\" string/any rules=(type:string =\"any\") =\"\">>")
		}
		if in.query > 0 {
			add("deep query", id, vMObj([4]string{"q", "number", "integer", "1"}))
		}
		switch in.request {
		case 1:
			add("deep request-body", id, "pseudo any")
		case 2:
			add("deep request-body", id, vMObj([4]string{"r", "boolean", "boolean", "true"}))
		case 3, 4:
			add("deep request-headers", id, vMObj([4]string{"X", "string", "string", "v"}))
			add("deep request-body", id, "pseudo any")
		}
		for _, r := range in.resp {
			if r.headers {
				add("deep response-headers", id, r.code, vMObj([4]string{"H", "string", "string", "w"}))
			}
			switch r.body {
			case 0:
				add("deep response-body", id, r.code, "pseudo any")
			case 1:
				add("deep response-body", id, r.code, "jsight <reference/@ty =\"@ty\"> types=@ty")
			case 2:
				add("deep response-body", id, r.code, vMObj([4]string{"ok", "number", "integer", "1"}))
			case 3:
				add("deep response-body", id, r.code, "jsight <array/array<reference/@ty optional =\"@ty\">> types=@ty") // array items are optional (as in the repository's own snapshots)
			}
		}
	}
	return out
}

// HModel (C02): abstract model (symbolic features) -> rendered document -> build -> the catalog says exactly the model.
func HModel() {
	m := vModelSymbolic(vParam("n", 1))
	doc, files := vApplyLayout(vRender(m), m.layout)
	c, je := vBuildProject(doc, files)
	if vParam("debug", 0) == 1 && je != nil {
		vObserve("doc", doc, int(je.Index), je.Msg)
	}
	vAssert(je == nil, "c02-rendered-model-rejected")
	got, want := vDigestDeep(c), append(vExpectedDigest(m), vExpectedDeep(m)...)
	if vParam("debug", 0) == 1 {
		for i := range want {
			if i >= len(got) || got[i] != want[i] {
				g := "<missing>"
				if i < len(got) {
					g = got[i]
				}
				vObserve("diff", want[i], g)
				break
			}
		}
	}
	vAssert(len(got) == len(want), "c02-catalog-entity-count-differs-from-model")
	for i := range want {
		vAssert(got[i] == want[i], "c02-catalog-entity-differs-from-model")
	}
	vCheckClosure(c)
	if vParam("repeat", 0) == 1 {
		// C16: a second serialisation hands over what the first one did
		e1 := vEmit(c)
		e2 := vEmit(c)
		vAssert(len(e1) == len(e2), "c16-second-serialisation-differs")
		for i := range e1 {
			vAssert(e1[i] == e2[i], "c16-second-serialisation-differs")
		}
	}
	vReach("model-roundtrip")
	vObserve("ok", len(got))
}

func init() { vRegister("HModel", HModel) }
