package core

import (
	"strconv"
	"strings"
)

// ---- abstract API model (C02) ----

type vMResponse struct {
	code    string
	body    int // 0 any, 1 reference to @ty, 2 inline jsight schema
	headers bool
	ann     bool
}

type vMInteraction struct {
	method   string
	path     string
	ann      bool
	descr    bool
	query    bool
	request  int // 0 none, 1 body any, 2 body jsight, 3 headers + body any
	useTag   bool
	opID     bool
	explicit bool // method context written with ( )
	resp     []vMResponse
}

type vModel struct {
	info, infoDescr bool
	server          bool
	tag             bool
	typ             bool
	enum            bool
	grouped         bool // both interactions under one URL directive (same path)
	blockAnn        bool // annotations written as /* */
	ints            []vMInteraction
}

var vMMethods = []string{"GET", "POST", "PUT"}
var vMPaths = []string{"/a", "/a/{id}", "/b"}

// Feature selection: the model has ~25 (n=1) / ~45 (n=2) feature choices; a job
// makes the features selected by the bit mask `mask` symbolic (the solver explores
// all their combinations) and fixes the others to the bits of `fixed`.
var vFeatIdx, vFeatMask, vFeatFixed int

func vFeatBool(name string) bool {
	i := uint(vFeatIdx % 60)
	vFeatIdx++
	if vFeatMask>>i&1 == 1 {
		return vBool(name)
	}
	return vFeatFixed>>i&1 == 1
}

func vFeatInt(name string, lo, hi int) int {
	i := uint(vFeatIdx % 60)
	vFeatIdx++
	if vFeatMask>>i&1 == 1 {
		return vInt(name, lo, hi)
	}
	return lo + (vFeatFixed>>i)%(hi-lo+1)
}

func vModelSymbolic(n int) vModel {
	vFeatIdx, vFeatMask, vFeatFixed = 0, vParam("mask", 0x3ff), vParam("fixed", 0)
	var m vModel
	m.info, m.infoDescr = vFeatBool("info"), vFeatBool("infoDescr")
	m.server, m.tag, m.typ, m.enum = vFeatBool("server"), vFeatBool("tag"), vFeatBool("typ"), vFeatBool("enum")
	m.blockAnn = vFeatBool("blockAnn")
	for i := 0; i < n; i++ {
		id := string(rune('0' + i))
		in := vMInteraction{
			method: vMMethods[vFeatInt("method"+id, 0, len(vMMethods)-1)],
			path:   vMPaths[vFeatInt("path"+id, 0, len(vMPaths)-1)],
			ann:    vFeatBool("ann" + id), descr: vFeatBool("descr" + id), query: vFeatBool("query" + id),
			request: vFeatInt("request"+id, 0, 3), useTag: vFeatBool("useTag" + id), opID: vFeatBool("opid" + id),
			explicit: vFeatBool("explicit" + id),
		}
		if !m.tag {
			vAssume(!in.useTag)
		}
		nr := vFeatInt("nresp"+id, 1, 2)
		codes := []string{"200", "404"}
		if vFeatBool("swap" + id) {
			codes = []string{"404", "200"}
		}
		for r := 0; r < nr; r++ {
			rid := id + string(rune('a'+r))
			rs := vMResponse{code: codes[r], body: vFeatInt("body"+rid, 0, 2), headers: vFeatBool("hdr" + rid), ann: vFeatBool("rann" + rid)}
			if !m.typ {
				vAssume(rs.body != 1)
			}
			in.resp = append(in.resp, rs)
		}
		m.ints = append(m.ints, in)
	}
	if n == 2 {
		// distinct interactions
		vAssume(!(m.ints[0].method == m.ints[1].method && m.ints[0].path == m.ints[1].path))
		m.grouped = vFeatBool("grouped")
		if m.grouped {
			vAssume(m.ints[0].path == m.ints[1].path)
		}
	}
	return m
}

func (m vModel) annotation(text string) string {
	if m.blockAnn {
		return " /* " + text + " */"
	}
	return " // " + text
}

// vRender writes the model as a JSight document.
func vRender(m vModel) string {
	var sb strings.Builder
	sb.WriteString("JSIGHT 0.3\n")
	if m.info {
		sb.WriteString("INFO\n  Title \"The API\"\n  Version 1.2\n")
		if m.infoDescr {
			sb.WriteString("  Description\n    About\n    the API\n")
		}
	}
	if m.server {
		sb.WriteString("SERVER @prod" + m.annotation("production") + "\n  BaseUrl \"https://api.example.com\"\n")
	}
	if m.tag {
		sb.WriteString("TAG @t1" + m.annotation("first tag") + "\n")
	}
	if m.typ {
		sb.WriteString("TYPE @ty" + m.annotation("a type") + "\n{\n  \"a\": 1\n}\n")
	}
	if m.enum {
		sb.WriteString("ENUM @en\n[\"x\", \"y\"]\n")
	}
	writeInt := func(in vMInteraction, ind string, withPath bool) {
		line := ind + in.method
		if withPath {
			line += " " + in.path
		}
		if in.ann {
			line += m.annotation(in.method + " note")
		}
		sb.WriteString(line + "\n")
		ci := ind + "  "
		if in.explicit {
			sb.WriteString(ind + "(\n")
		}
		if in.useTag {
			sb.WriteString(ci + "Tags @t1\n")
		}
		if in.opID {
			sb.WriteString(ci + "OperationId op" + in.method + strconv.Itoa(len(in.path)) + "\n")
		}
		if in.descr {
			sb.WriteString(ci + "Description\n" + ci + "  what " + in.method + "\n" + ci + "  does\n")
		}
		if in.query {
			sb.WriteString(ci + "Query\n" + ci + "{\n" + ci + "  \"q\": 1\n" + ci + "}\n")
		}
		switch in.request {
		case 1:
			sb.WriteString(ci + "Request any\n")
		case 2:
			sb.WriteString(ci + "Request\n" + ci + "{\n" + ci + "  \"r\": true\n" + ci + "}\n")
		case 3:
			sb.WriteString(ci + "Request\n" + ci + "  Headers\n" + ci + "  {\n" + ci + "    \"X\": \"v\"\n" + ci + "  }\n" + ci + "  Body any\n")
		}
		for _, r := range in.resp {
			l := ci + r.code
			switch r.body {
			case 0:
				if !r.headers {
					l += " any"
				}
			case 1:
				if !r.headers {
					l += " @ty"
				}
			}
			if r.ann {
				l += m.annotation("resp " + r.code)
			}
			sb.WriteString(l + "\n")
			if r.headers {
				sb.WriteString(ci + "  Headers\n" + ci + "  {\n" + ci + "    \"H\": \"w\"\n" + ci + "  }\n")
				switch r.body {
				case 0:
					sb.WriteString(ci + "  Body any\n")
				case 1:
					sb.WriteString(ci + "  Body @ty\n")
				case 2:
					sb.WriteString(ci + "  Body\n" + ci + "  {\n" + ci + "    \"ok\": 1\n" + ci + "  }\n")
				}
			} else if r.body == 2 {
				sb.WriteString(ci + "{\n" + ci + "  \"ok\": 1\n" + ci + "}\n")
			}
		}
		if in.explicit {
			sb.WriteString(ind + ")\n")
		}
	}
	if m.grouped {
		sb.WriteString("URL " + m.ints[0].path + "\n")
		for _, in := range m.ints {
			writeInt(in, "  ", false)
		}
	} else {
		for _, in := range m.ints {
			writeInt(in, "", true)
		}
	}
	return sb.String()
}

// vExpectedDigest: what the catalog must say, computed from the model alone
// (same rendering conventions as vDigest).
func vExpectedDigest(m vModel) []string {
	var out []string
	add := func(parts ...string) { out = append(out, strings.Join(parts, " ")) }
	q := strconv.Quote
	add("jsight", "0.3")
	if m.info {
		d := "<nil>"
		if m.infoDescr {
			d = q("About\nthe API")
		}
		add("info", q("The API"), q("1.2"), d)
	}
	if m.server {
		add("server", "@prod", q("https://api.example.com"), q("production"))
	}
	if m.typ {
		add("type", "@ty", q("a type"), "jsight", "{\"a\":1}")
	}
	if m.enum {
		add("enum", "@en", q(""), "[\"x\",\"y\"]")
	}
	// tags: declared ones first, then path tags in the order of first use
	type tg struct {
		name, title, descr string
		ids                []string
	}
	var tags []*tg
	find := func(name string) *tg {
		for _, t := range tags {
			if t.name == name {
				return t
			}
		}
		return nil
	}
	if m.tag {
		tags = append(tags, &tg{name: "@t1", title: "first tag", descr: "<nil>"})
	}
	for _, in := range m.ints {
		id := "http " + in.method + " " + in.path
		if in.useTag {
			find("@t1").ids = append(find("@t1").ids, id)
			continue
		}
		first := strings.Split(strings.TrimPrefix(in.path, "/"), "/")[0]
		name := "@" + first
		t := find(name)
		if t == nil {
			t = &tg{name: name, title: "/" + first, descr: "<nil>"}
			tags = append(tags, t)
		}
		t.ids = append(t.ids, id)
	}
	for _, t := range tags {
		add("tag", t.name, q(t.title), t.descr, "["+strings.Join(t.ids, ",")+"]")
	}
	for _, in := range m.ints {
		id := "http " + in.method + " " + in.path
		tagName := "@" + strings.Split(strings.TrimPrefix(in.path, "/"), "/")[0]
		if in.useTag {
			tagName = "@t1"
		}
		ann, desc, opid := "<nil>", "<nil>", "<nil>"
		if in.ann {
			ann = q(in.method + " note")
		}
		if in.descr {
			desc = q("what " + in.method + "\ndoes")
		}
		if in.opID {
			opid = q("op" + in.method + strconv.Itoa(len(in.path)))
		}
		add("http", id, id, "tags="+tagName, "ann="+ann, "desc="+desc, "opid="+opid)
		if strings.Contains(in.path, "{") {
			add("  pathvars")
		}
		if in.query {
			add("  query", q("htmlFormEncoded"), q(""), "{\"q\":1}")
		}
		switch in.request {
		case 1:
			add("  request-body", "binary", "any", "-")
		case 2:
			add("  request-body", "json", "jsight", "{\"r\":true}")
		case 3:
			add("  request-headers", "{\"X\":\"v\"}")
			add("  request-body", "binary", "any", "-")
		}
		for _, r := range in.resp {
			ra := ""
			if r.ann {
				ra = "resp " + r.code
			}
			add("  response", r.code, q(ra))
			if r.headers {
				add("    headers", "{\"H\":\"w\"}")
			}
			switch r.body {
			case 0:
				add("    body", "binary", "any", "-", "", "")
			case 1:
				add("    body", "json", "jsight", "-", "", "@ty")
			case 2:
				add("    body", "json", "jsight", "{\"ok\":1}", "", "")
			}
		}
	}
	return out
}

// HModel (C02): abstract model (symbolic features) -> rendered document -> build -> the catalog says exactly the model.
func HModel() {
	m := vModelSymbolic(vParam("n", 1))
	doc := vRender(m)
	c, je := vBuildText(doc)
	if vParam("debug", 0) == 1 && je != nil {
		vObserve("doc", doc, int(je.Index), je.Msg)
	}
	vAssert(je == nil, "c02-rendered-model-rejected")
	got, want := vDigest(c), vExpectedDigest(m)
	if vParam("debug", 0) == 1 {
		for i := range want {
			if i >= len(got) || got[i] != want[i] {
				g := "<missing>"
				if i < len(got) {
					g = got[i]
				}
				vObserve("diff", want[i], g)
				break
			}
		}
	}
	vAssert(len(got) == len(want), "c02-catalog-entity-count-differs-from-model")
	for i := range want {
		vAssert(got[i] == want[i], "c02-catalog-entity-differs-from-model")
	}
	vCheckClosure(c)
	vReach("model-roundtrip")
	vObserve("ok", len(got))
}

func init() { vRegister("HModel", HModel) }
