package core

import (
	"sort"
	"strings"

	"github.com/jsightapi/jsight-schema-core/fs"

	"github.com/jsightapi/jsight-api-core/directive"
)

// HCorpusSplit (C09; with paste=1: C10): a file of the repository's corpus (accepted, without MACRO / PASTE /
// INCLUDE lines, 1..maxn top-level blocks after JSIGHT — cut at the root directives of the
// implementation's own directive tree, which places the test and does not judge it): a run of
// consecutive blocks (start and length symbolic: every run) moves into piece.jst and an INCLUDE
// takes its place. The project is accepted and its catalog is the one of the single file
// (deep digest, entry by entry, in the same order).
func HCorpusSplit() {
	i := vParam("i", 0)
	if hi := vParam("hi", -1); hi >= 0 {
		i = vInt("i", vParam("lo", 0), hi)
	}
	_, content := vCorpusFile(i)
	maxN := vParam("maxn", 6)
	if len(content) == 0 {
		vReach("skipped")
		vObserve("skipped", "empty")
		return
	}
	if content[len(content)-1] != '\n' && content[len(content)-1] != '\r' {
		content = append(append([]byte(nil), content...), '\n')
	}
	for _, line := range strings.Split(string(content), "\n") {
		t := strings.TrimLeft(line, " \t")
		if strings.HasPrefix(t, "MACRO") || strings.HasPrefix(t, "PASTE") || strings.HasPrefix(t, "INCLUDE") {
			vReach("skipped")
			vObserve("skipped", "macro-paste-include")
			return
		}
	}
	vDir(vPath("/vfs/p"))
	rootName := vPath("/vfs/p/root.jst")
	cA := NewJApiCore(fs.NewFile(rootName, content))
	if jeA := cA.BuildCatalog(); jeA != nil {
		vReach("skipped")
		vObserve("skipped", "rejected")
		return
	}
	var begins []int
	kindAt := map[int]string{}
	for _, d := range cA.directives {
		if d.Parent == nil {
			b := directive.VKeywordBegin(d)
			for b > 0 && content[b-1] != '\n' && content[b-1] != '\r' {
				b--
			}
			begins = append(begins, b)
			kindAt[b] = d.Type().String()
		}
	}
	sort.Ints(begins)
	kinds := make([]string, len(begins))
	for k, b := range begins {
		kinds[k] = kindAt[b]
	}
	n := len(begins) - 1 // blocks after JSIGHT
	if n < 1 || n > maxN {
		vReach("skipped")
		vObserve("skipped", "blocks", n)
		return
	}
	begins = append(begins, len(content))
	// the run [a, a+span) of blocks 1..n
	a := 1
	sa := vInt("a", 1, n)
	for k := 1; k <= n; k++ {
		if sa == k {
			a = k
			break
		}
	}
	span := 1
	ss := vInt("span", 1, n-a+1)
	for k := 1; k <= n-a+1; k++ {
		if ss == k {
			span = k
			break
		}
	}
	piece := string(content[begins[a]:begins[a+span]])
	root := string(content[:begins[a]]) + "INCLUDE piece.jst\n" + string(content[begins[a+span]:])
	if vParam("paste", 0) == 1 {
		// C10: the run becomes the body of a macro (explicit context), a PASTE takes its place; the
		// macro is defined after JSIGHT or at the end of the file (symbolic). Only runs whose
		// blocks the context table admits inside a MACRO (frozen list).
		for k := a; k < a+span; k++ {
			ok := false
			for _, t := range []string{"INFO", "SERVER", "URL", "GET", "POST", "PUT", "PATCH", "DELETE", "TYPE", "ENUM"} {
				if kinds[k] == t {
					ok = true
				}
			}
			if !ok {
				vReach("skipped")
				vObserve("skipped", "not-admitted-in-a-macro")
				return
			}
		}
		if strings.Contains(string(content), "@zzm") {
			vReach("skipped")
			vObserve("skipped", "name")
			return
		}
		macro := "MACRO @zzm\n(\n" + piece + ")\n"
		if vBool("macroFirst") {
			root = string(content[:begins[1]]) + macro + string(content[begins[1]:begins[a]]) + "PASTE @zzm\n" + string(content[begins[a+span]:])
		} else {
			root = string(content[:begins[a]]) + "PASTE @zzm\n" + string(content[begins[a+span]:]) + macro
		}
	} else {
		vFile(vPath("/vfs/p/piece.jst"), []byte(piece))
	}
	cB := NewJApiCore(fs.NewFile(rootName, []byte(root)))
	jeB := cB.BuildCatalog()
	vAssert(jeB == nil, "c09-c10-rewrite-changes-accept-reject")
	dA, dB := vDigestDeep(cA), vDigestDeep(cB)
	vAssert(len(dA) == len(dB), "c09-c10-rewrite-changes-catalog")
	for k := range dA {
		vAssert(dA[k] == dB[k], "c09-c10-rewrite-changes-catalog")
	}
	vReach("split")
	vObserve("same", n, len(dA))
}

func init() { vRegister("HCorpusSplit", HCorpusSplit) }
