package core

import "strings"

// vTypeCycleDoc: three user types in a reference cycle (@b -> @c -> @d -> @b, the
// references optional); member i carries a property whose example violates its own
// rule iff bit i of faults is set. Returns the document and the line (1-based) of
// each member's rule line.
func vTypeCycleDoc(faults int, order int, enum bool) (string, []int) {
	names := []string{"@b", "@c", "@d"}
	var sb strings.Builder
	sb.WriteString("JSIGHT 0.3\n\n")
	// an ENUM makes every type carry a rule (the rules are added to each type before use)
	line := 3
	if enum {
		sb.WriteString("ENUM @e\n[1, 2]\n\n")
		line = 6
	}
	lines := make([]int, 3)
	idx := []int{0, 1, 2}
	if order == 1 {
		idx = []int{2, 1, 0}
	}
	for _, i := range idx {
		v := "15"
		if faults>>uint(i)&1 == 1 {
			v = "5"
		}
		next := names[(i+1)%3]
		// members differ in key length and bound, so that a fault reported with another member's
		// coordinates or another member's message is observable
		key := strings.Repeat("x", 1+3*i)
		sb.WriteString("TYPE " + names[i] + "\n{\n  \"n\": " + next + ", // {optional: true}\n  \"" + key + "\": " + v + " // {min: " + []string{"10", "11", "12"}[i] + "}\n}\n\n")
		lines[i] = line + 3
		line += 6
	}
	sb.WriteString("GET /x\n  200 @b\n")
	return sb.String(), lines
}

// HTypeCycleError (C07, C01): a rule violation inside members of a cycle of user types
// (which members: symbolic, at least one; definition order: symbolic) is reported in the
// body of a faulty member, on the line of the faulty property — not with the
// coordinates of another type of the cycle.
func HTypeCycleError() {
	faults := vInt("faults", 0, 7)
	order := vInt("order", 0, 1)
	doc, lines := vTypeCycleDoc(faults, order, vBool("enum"))
	_, je := vBuildText(doc)
	if faults == 0 {
		vAssert(je == nil, "c07-valid-type-cycle-rejected")
		vReach("cycle-accepted")
		vObserve("ok")
		return
	}
	vAssert(je != nil, "c07-faulty-type-cycle-accepted")
	vAssert(strings.Contains(je.Msg, "min"), "c07-type-cycle-wrong-message")
	hit := false
	for i := 0; i < 3; i++ {
		if faults>>uint(i)&1 == 1 && int(je.Line) == lines[i] {
			hit = true
		}
	}
	vAssert(hit, "c07-type-cycle-error-not-on-a-faulty-line")
	vReach("cycle-located")
	vObserve("err", int(je.Line), int(je.Index))
}

func init() { vRegister("HTypeCycleError", HTypeCycleError) }
