package core

import (
	"strings"

	"github.com/jsightapi/jsight-schema-core/fs"

	"github.com/jsightapi/jsight-api-core/jerr"
)

// HMacroGraph (C01-b, C10): macro call graphs with symbolic PASTE targets.
// Macros a, b, c (as many as `macros`), each body = one PASTE @<target> or a plain
// directive; the document ends with PASTE @<w>. Targets range over the defined
// names, an undefined name 'z' and '-' (no paste: a plain directive).
func HMacroGraph() {
	nm := vParam("macros", 2)
	names := []byte{'a', 'b', 'c'}[:nm]
	pick := func(id string) byte {
		t := vByte(id)
		ok := t == 'z' || t == '-'
		for _, x := range names {
			if t == x {
				ok = true
			}
		}
		vAssume(ok)
		return t
	}
	target := map[byte]byte{}
	doc := []byte("JSIGHT 0.3\n")
	for _, x := range names {
		t := pick("t" + string(x))
		target[x] = t
		doc = append(doc, []byte("MACRO @"+string(x)+"\n(\n")...)
		if t == '-' {
			doc = append(doc, []byte("  TYPE @t"+string(x)+" any\n")...)
		} else {
			doc = append(doc, 'P', 'A', 'S', 'T', 'E', ' ', '@', t, '\n')
		}
		doc = append(doc, ')', '\n')
	}
	w := pick("w")
	vAssume(w != '-')
	doc = append(doc, 'P', 'A', 'S', 'T', 'E', ' ', '@', w, '\n')

	c := NewJApiCore(fs.NewFile("/vfs/root.jst", doc))
	je := c.BuildCatalog() // must terminate without panic for every graph

	// reference: does any macro reach itself? is an undefined macro pasted from a used chain?
	cyclic := false
	for _, x := range names {
		seen := map[byte]bool{}
		t := target[x]
		for steps := 0; steps < 8; steps++ {
			if t == x {
				cyclic = true
				break
			}
			nt, defined := target[t]
			if !defined || seen[t] {
				break
			}
			seen[t] = true
			t = nt
		}
	}
	undefined := false
	{
		seen := map[byte]bool{}
		t := w
		for steps := 0; steps < 8; steps++ {
			nt, defined := target[t]
			if !defined {
				undefined = true // 'z'
				break
			}
			if nt == '-' || seen[t] {
				break
			}
			seen[t] = true
			t = nt
		}
	}
	switch {
	case cyclic:
		vAssert(je != nil, "c10-macro-cycle-accepted")
		vAssert(strings.Contains(je.Msg, jerr.RecursionIsProhibited), "c10-macro-cycle-wrong-error")
		vReach("cycle")
	case undefined:
		vAssert(je != nil, "c10-undefined-macro-accepted")
		vAssert(strings.Contains(je.Msg, jerr.MacroNotFound), "c10-undefined-macro-wrong-error")
		vReach("undefined")
	default:
		vAssert(je == nil, "c10-acyclic-macro-graph-rejected")
		vReach("expanded")
	}
	if je != nil {
		vObserve("err", int(je.Index), je.Msg)
	} else {
		vObserve("ok", len(c.directivesWithPastes))
	}
}

func init() { vRegister("HMacroGraph", HMacroGraph) }

// HMacroDag (C10): macro call graphs in which a macro calls up to TWO macros (diamonds,
// the same macro called twice, cycles of any shape). Macros a, b, c are only defined
// (the document pastes an independent macro), each with two PASTE slots whose targets
// are symbolic over {a, b, c, none}. The project is rejected with the recursion error
// exactly when some macro reaches itself; reaching a macro twice is not a cycle.
func HMacroDag() {
	names := []byte{'a', 'b', 'c'}
	pick := func(id string) byte {
		t := vByte(id)
		vAssume(t == 'a' || t == 'b' || t == 'c' || t == '-')
		return t
	}
	edges := map[byte][]byte{}
	doc := []byte("JSIGHT 0.3\n")
	for _, x := range names {
		doc = append(doc, []byte("MACRO @"+string(x)+"\n(\n  GET /"+string(x)+"\n    200 any\n")...)
		for s := 0; s < 2; s++ {
			t := pick("t" + string(x) + string(rune('0'+s)))
			if t != '-' {
				edges[x] = append(edges[x], t)
				doc = append(doc, ' ', ' ', ' ', ' ', 'P', 'A', 'S', 'T', 'E', ' ', '@', t, '\n')
			}
		}
		doc = append(doc, ')', '\n')
	}
	doc = append(doc, []byte("MACRO @used\n(\n  404 any\n)\nGET /x\n  200 any\n  PASTE @used\n")...)
	c := NewJApiCore(fs.NewFile("/vfs/root.jst", doc))
	je := c.BuildCatalog()

	cyclic := false
	var dfs func(start, x byte, depth int)
	dfs = func(start, x byte, depth int) {
		if depth > 4 || cyclic {
			return
		}
		for _, t := range edges[x] {
			if t == start {
				cyclic = true
				return
			}
			dfs(start, t, depth+1)
		}
	}
	for _, x := range names {
		dfs(x, x, 0)
	}
	if cyclic {
		vAssert(je != nil, "c10-macro-cycle-accepted")
		vAssert(strings.Contains(je.Msg, jerr.RecursionIsProhibited), "c10-macro-cycle-wrong-error")
		vReach("cycle")
		vObserve("cycle")
		return
	}
	vAssert(je == nil, "c10-acyclic-macro-graph-rejected")
	vReach("dag-accepted")
	vObserve("ok", len(c.directivesWithPastes))
}

func init() { vRegister("HMacroDag", HMacroDag) }
