package core

import (
	"sort"
	"strings"

	"github.com/jsightapi/jsight-schema-core/fs"

	"github.com/jsightapi/jsight-api-core/directive"
)

// HCorpusPermute (C15): a file of the repository's corpus, cut into its top-level blocks (the
// root directives of the implementation's own directive tree give the cut positions — used to
// place the test, not to judge it), built as written and with the blocks after JSIGHT in a
// symbolic permutation (Lehmer code: every order of the n blocks). Files with MACRO, PASTE or
// INCLUDE are left out (the property excludes implicit-context macros; an INCLUDE is not a
// block of this file). Both documents are accepted and have the same entities with the same
// content (deep digest, compared as multisets; interactions inside a tag as a set).
func HCorpusPermute() {
	i := vParam("i", 0)
	if hi := vParam("hi", -1); hi >= 0 {
		i = vInt("i", vParam("lo", 0), hi) // every file of the window
	}
	name, content := vCorpusFile(i)
	maxN := vParam("maxn", 5)
	if len(content) == 0 {
		vReach("skipped")
		vObserve("skipped", "empty")
		return
	}
	if content[len(content)-1] != '\n' && content[len(content)-1] != '\r' {
		content = append(append([]byte(nil), content...), '\n')
	}
	for _, line := range strings.Split(string(content), "\n") {
		t := strings.TrimLeft(line, " \t")
		if strings.HasPrefix(t, "MACRO") || strings.HasPrefix(t, "PASTE") || strings.HasPrefix(t, "INCLUDE") {
			vReach("skipped")
			vObserve("skipped", "macro-paste-include")
			return
		}
	}
	cA := NewJApiCore(fs.NewFile(name, content))
	if jeA := cA.BuildCatalog(); jeA != nil {
		vReach("skipped")
		vObserve("skipped", "rejected")
		return
	}
	var begins []int
	for _, d := range cA.directives {
		if d.Parent == nil {
			b := directive.VKeywordBegin(d)
			for b > 0 && content[b-1] != '\n' && content[b-1] != '\r' {
				b--
			}
			begins = append(begins, b)
		}
	}
	sort.Ints(begins)
	n := len(begins) - 1 // blocks after JSIGHT
	if n < 2 || n > maxN {
		vReach("skipped")
		vObserve("skipped", "blocks", n)
		return
	}
	var blocks []string
	for k := 1; k <= n; k++ {
		end := len(content)
		if k < n {
			end = begins[k+1]
		}
		blocks = append(blocks, string(content[begins[k]:end]))
	}
	order := make([]int, n)
	for i := range order {
		order[i] = i
	}
	for i := 0; i < n-1; i++ {
		sel := vInt("p"+string(rune('0'+i)), 0, n-1-i)
		j := i
		for k := 0; k <= n-1-i; k++ {
			if sel == k {
				j = i + k
				break
			}
		}
		order[i], order[j] = order[j], order[i]
	}
	docB := string(content[:begins[1]])
	for _, o := range order {
		docB += blocks[o]
	}
	cB := NewJApiCore(fs.NewFile(name, []byte(docB)))
	jeB := cB.BuildCatalog()
	vAssert(jeB == nil, "c15-permuted-document-rejected")
	eA, eB := vEntities(vDigestDeep(cA)), vEntities(vDigestDeep(cB))
	sort.Strings(eA)
	sort.Strings(eB)
	vAssert(len(eA) == len(eB), "c15-permutation-changes-the-number-of-entities")
	for i := range eA {
		vAssert(eA[i] == eB[i], "c15-permutation-changes-an-entity")
	}
	vReach("permuted")
	vObserve("same", n, len(eA))
}

func init() { vRegister("HCorpusPermute", HCorpusPermute) }
