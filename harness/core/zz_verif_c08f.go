package core

import (
	"strings"

	"github.com/jsightapi/jsight-schema-core/fs"
)

// HCorpusLayout (C08): a file of the repository's corpus as written (LF) and with every line
// end rewritten to CRLF or to CR (symbolic choice; files that already hold a CR, and files
// with INCLUDE — the included files would keep their own line ends — are left out): the same
// verdict; accepted: the same catalog (deep digest); rejected: the same error class on the
// same line.
func HCorpusLayout() {
	i := vParam("i", 0)
	if hi := vParam("hi", -1); hi >= 0 {
		i = vInt("i", vParam("lo", 0), hi)
	}
	name, content := vCorpusFile(i)
	src := string(content)
	if strings.Contains(src, "\r") || strings.Contains(src, "INCLUDE") || len(src) == 0 {
		vReach("skipped")
		vObserve("skipped")
		return
	}
	nl := "\r\n"
	if vBool("cr") {
		nl = "\r"
	}
	dst := strings.Replace(src, "\n", nl, -1)
	cA := NewJApiCore(fs.NewFile(name, []byte(src)))
	jeA := cA.BuildCatalog()
	cB := NewJApiCore(fs.NewFile(name, []byte(dst)))
	jeB := cB.BuildCatalog()
	vAssert((jeA == nil) == (jeB == nil), "c08-verdict-depends-on-the-line-ends")
	if jeA != nil {
		// the class: the message up to the first quoted part (which may render the offending
		// byte — for an unterminated line that byte IS the line end)
		cls := func(m string) string {
			if i := strings.IndexAny(m, "\"'"); i >= 0 {
				m = m[:i]
			}
			return m
		}
		vAssert(cls(jeA.Msg) == cls(jeB.Msg), "c08-error-class-depends-on-the-line-ends")
		vAssert(jeA.Line == jeB.Line, "c08-error-line-depends-on-the-line-ends")
		vReach("rejected")
		vObserve("rejected", int(jeA.Line))
		return
	}
	dA, dB := vDigestDeep(cA), vDigestDeep(cB)
	vAssert(len(dA) == len(dB), "c08-catalog-depends-on-the-line-ends")
	for k := range dA {
		vAssert(dA[k] == dB[k], "c08-catalog-depends-on-the-line-ends")
	}
	vReach("same")
	vObserve("same", len(dA))
}

func init() { vRegister("HCorpusLayout", HCorpusLayout) }
