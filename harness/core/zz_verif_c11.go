package core

import (
	"strings"

	"github.com/jsightapi/jsight-schema-core/bytes"
	"github.com/jsightapi/jsight-schema-core/fs"

	"github.com/jsightapi/jsight-api-core/directive"
	"github.com/jsightapi/jsight-api-core/jerr"
)

// error classes
const (
	vErrNone = iota
	vErrContext
	vErrContextWithPath
	vErrNothingToClose
	vErrNotClosed
	vErrOther
)

func vClassify(je *jerr.JApiError) int {
	switch {
	case je == nil:
		return vErrNone
	case strings.HasPrefix(je.Msg, jerr.IncorrectDirectiveContext) && strings.Contains(je.Msg, "with the \"Path\" parameter"):
		return vErrContextWithPath
	case strings.HasPrefix(je.Msg, jerr.IncorrectDirectiveContext):
		return vErrContext
	case je.Msg == jerr.ThereIsNoExplicitContextForClosure:
		return vErrNothingToClose
	case je.Msg == jerr.ContextNotClosed:
		return vErrNotClosed
	}
	return vErrOther
}

// kind subsets for longer sequences (0 = all 31 kinds)
var vC11Subsets = [][]int{
	nil,
	{kURL, kGET, kPOST, kMACRO, kResponse, kBody, kPASTE, kTAG, kDescription, kRequest, kPath, kTYPE},
	{kURL, kGET, kMACRO, kResponse, kProtocol, kMethod, kParams, kINFO, kTitle, kSERVER, kBaseUrl, kTags},
}

// HContext (C11): a sequence of n events, each a directive (kind, has-Path,
// followed-by-'(') or a ')' — all symbolic — then end of file. The real
// processContext / closeLastExplicitContext / processEOF are driven exactly as
// core.next does; the result is compared with the reference automaton.
func HContext() {
	n := vParam("n", 2)
	maxKind := vParam("maxkind", kCount-1)
	subset := vC11Subsets[vParam("subset", 0)]
	file := fs.NewFile("/vfs/root.jst", []byte(strings.Repeat("x", 10*n+10)))
	c := NewJApiCore(file)
	c.scanner.SetCurrentIndex(bytes.Index(5)) // a plausible position for the ')' / EOF errors

	type ev struct {
		close            bool
		kind             int
		hasPath, explict bool
	}
	evs := make([]ev, n)
	dirs := make([]*directive.Directive, n)
	for i := range evs {
		id := string(rune('0' + i))
		evs[i].close = vBool("close" + id)
		if !evs[i].close {
			if len(subset) == 0 {
				evs[i].kind = vInt("kind"+id, 0, maxKind)
			} else {
				evs[i].kind = subset[vInt("kind"+id, 0, len(subset)-1)]
			}
			evs[i].hasPath = vBool("path" + id)
			evs[i].explict = vBool("open" + id)
		}
	}

	// ---- implementation ----
	implErr, implAt := vErrNone, -1
	var implJe *jerr.JApiError
	for i := 0; i < n && implErr == vErrNone; i++ {
		var je *jerr.JApiError
		if evs[i].close {
			je = c.processContextEnd()
		} else {
			je = c.processCurrentDirective()
			if je == nil {
				d := directive.New(directive.Enumeration(evs[i].kind), directive.NewCoords(file, bytes.Index(10*i+1), bytes.Index(10*i+3)))
				if evs[i].hasPath {
					_ = d.SetNamedParameter("Path", "/p")
				}
				dirs[i] = d
				c.currentDirective = d
				if evs[i].explict {
					c.processContextBegin()
				}
			}
		}
		if je != nil {
			implErr, implAt, implJe = vClassify(je), i, je
		}
	}
	if implErr == vErrNone {
		if je := c.processEOF(); je != nil {
			implErr, implAt, implJe = vClassify(je), n, je
		}
	}

	// ---- reference automaton (DESIGN.md B2) ----
	type open struct{ idx int }
	var stack []int // indices of open directives, innermost last
	parent := make([]int, n)
	for i := range parent {
		parent[i] = -2 // not placed
	}
	var roots []int
	pending := -1
	refErr, refAt, refOn := vErrNone, -1, -1
	place := func(at int) {
		if pending < 0 {
			return
		}
		d := pending
		pending = -1
		for {
			if len(stack) == 0 {
				if vSpecRoot[evs[d].kind] == 1 {
					roots = append(roots, d)
					parent[d] = -1
					stack = []int{d}
					return
				}
				refErr, refAt, refOn = vErrContext, at, d
				return
			}
			top := stack[len(stack)-1]
			if vSpecChild[evs[top].kind*kCount+evs[d].kind] == 1 {
				if vSpecIsHTTPMethod(evs[d].kind) && evs[d].hasPath && evs[top].kind == kURL {
					if evs[top].explict {
						refErr, refAt, refOn = vErrContextWithPath, at, d
						return
					}
					// a method with its own path does not belong to the implicit URL: the URL
					// closes silently and the method is placed further up (a new root when
					// nothing encloses the URL; an enclosing explicit context is never left)
					stack = stack[:len(stack)-1]
					continue
				}
				parent[d] = top
				stack = append(stack, d)
				return
			}
			if evs[top].explict {
				refErr, refAt, refOn = vErrContext, at, d
				return
			}
			stack = stack[:len(stack)-1]
		}
	}
	for i := 0; i < n && refErr == vErrNone; i++ {
		place(i)
		if refErr != vErrNone {
			break
		}
		if evs[i].close {
			closed := false
			for len(stack) > 0 {
				top := stack[len(stack)-1]
				stack = stack[:len(stack)-1]
				if evs[top].explict {
					closed = true
					break
				}
			}
			if !closed {
				refErr, refAt = vErrNothingToClose, i
			}
		} else {
			pending = i
		}
	}
	if refErr == vErrNone {
		place(n)
		if refErr == vErrNone {
			for _, x := range stack {
				if evs[x].explict {
					refErr, refAt = vErrNotClosed, n
				}
			}
		}
	}

	// ---- compare ----
	vAssert(implErr != vErrOther, "c11-unexpected-error-class")
	vAssert((implErr == vErrNone) == (refErr == vErrNone), "c11-accept-reject-differs-from-context-table")
	vAssert(implErr == refErr, "c11-error-class")
	vAssert(implAt == refAt, "c11-error-raised-at-wrong-event")
	if refOn >= 0 {
		// the error is located on the offending directive
		vAssert(int(implJe.Index) == 10*refOn+1, "c11-error-not-on-the-offending-directive")
	}
	if refErr == vErrNone {
		// same tree
		vAssert(len(c.directives) == len(roots), "c11-root-count")
		for k, r := range roots {
			vAssert(c.directives[k] == dirs[r], "c11-root-order")
		}
		for i := 0; i < n; i++ {
			if evs[i].close {
				continue
			}
			if parent[i] == -1 {
				vAssert(dirs[i].Parent == nil, "c11-root-has-parent")
			} else {
				vAssert(parent[i] >= 0 && dirs[i].Parent == dirs[parent[i]], "c11-wrong-parent")
			}
		}
		vReach("accepted")
	} else {
		vReach("rejected")
	}
	vObserve("res", implErr, implAt)
}

func init() { vRegister("HContext", HContext) }
