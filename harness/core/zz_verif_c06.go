package core

import (
	"strings"

	"github.com/jsightapi/jsight-api-core/jerr"
)

var vC06Docs = []string{
	// 0: several enums / types / path variables / allOf: every range-over-map of the build is exercised with >= 2 entries
	"JSIGHT 0.3\n" +
		"ENUM @e1\n[1, 2]\nENUM @e2\n[\"a\"]\nENUM @e3\n[true]\n" +
		"TYPE @base\n{\n  \"id\": 1,\n  \"kind\": \"a\" // {enum: @e2}\n}\n" +
		"TYPE @ext\n{ // {allOf: \"@base\"}\n  \"n\": 2,\n  \"m\": 3\n}\n" +
		"URL /a/{x}/b/{y}/{z}\n  Path\n  {\n    \"x\": 1,\n    \"y\": \"s\",\n    \"z\": true\n  }\n  GET\n    200 @ext\n  POST\n    Request @base\n    201 any\n",
	// 1: two independent faults: which one is reported must not depend on map order
	"JSIGHT 0.3\n" +
		"ENUM @e1\n[1, 2]\nENUM @e2\n[\"a\"]\n" +
		"TYPE @t1\n{\n  \"a\": 1 // {enum: @nope1}\n}\n" +
		"TYPE @t2\n{\n  \"b\": 2 // {enum: @nope2}\n}\n" +
		"GET /x\n  200 @t1\n",
	// 2: two self-recursive macros and two undefined pastes
	"JSIGHT 0.3\nMACRO @m1\n(\n  PASTE @m1\n)\nMACRO @m2\n(\n  PASTE @m2\n)\nMACRO @m3\n(\n  PASTE @m3\n)\nGET /x\n  200 any\n",
	// 3: allOf overriding a property (error names a property / type: order of properties matters)
	"JSIGHT 0.3\nTYPE @p1\n{\n  \"a\": 1,\n  \"b\": 2\n}\nTYPE @p2\n{\n  \"c\": 3,\n  \"d\": 4\n}\nTYPE @kid\n{ // {allOf: [\"@p1\", \"@p2\"]}\n  \"b\": 5,\n  \"c\": 6\n}\nGET /x\n  200 @kid\n",
	// 5 (appended below): a Path schema with unused properties
	// 4: path parameters defined twice in Path directives of different levels
	"JSIGHT 0.3\nURL /a/{x}/{y}\n  Path\n  {\"x\": 1}\n  GET\n    Path\n    {\"y\": 2}\n    200 any\nGET /a/{x}/{y}/c\n  Path\n  {\n    \"x\": 1,\n    \"y\": 3\n  }\n  200 any\n",
	// 5: a Path schema with two properties that are not parameters of the path (the error lists them)
	"JSIGHT 0.3\nGET /cats/{id}\n  Path\n  {\n    \"id\": 1,\n    \"aaa\": 2,\n    \"bbb\": 3\n  }\n  200 any\n",
	// 6: two user types that both use an undefined type (which one is reported?)
	"JSIGHT 0.3\nTYPE @t1\n{\n  \"a\": \"@nope1\" // {type: \"@nope1\"}\n}\nTYPE @t2\n{\n  \"b\": \"@nope2\" // {type: \"@nope2\"}\n}\nGET /x\n  200 any\n",
	// 7: a Tags directive naming three tags and repeating one; two methods; URL-level Tags
	"JSIGHT 0.3\nTAG @a\nTAG @b\nTAG @c\nURL /u\n  Tags @c @b\n  GET\n    Tags @a @b @c @a\n    200 any\n  POST\n    200 any\n",
	// 8: a path that repeats two different parameters (which one is named?) 
	"JSIGHT 0.3\nGET /o/{o}/p/{p}/f/{o}/t/{p}\n  200 any\n",
	// 9: two servers, two tags with descriptions, two enums used by one type, OperationIds
	"JSIGHT 0.3\nSERVER @s1\n  BaseUrl \"https://a\"\nSERVER @s2\n  BaseUrl \"https://b\"\nTAG @x\n  Description\n    dx\nTAG @y\n  Description\n    dy\nENUM @e1\n[1]\nENUM @e2\n[2]\nTYPE @t\n{\n  \"p\": 1, // {enum: @e1}\n  \"q\": 2 // {enum: @e2}\n}\nGET /a\n  Tags @y @x\n  OperationId one\n  200 @t\nGET /b\n  Tags @x\n  OperationId two\n  200 @t\n",
	// 10: three user types in a reference cycle, two of them with a fault of their own (which one is reported, and where?)
	vC06Cycle(3, false),
	// 11: the same cycle with an ENUM in the project and all three members faulty, defined in reverse order
	vC06Cycle(7, true),
	// 12: two faults found by two different final checks (response without a body, request without a body) and an INFO without a title
	"JSIGHT 0.3\nGET /a\n  200\n    Headers\n    {\"h\": 1}\nPOST /b\n  Request\n    Headers\n    {\"h\": 2}\n  200 any\n",
	// 13: a regex type referred to by two types, a response and an inline body: the generated EXAMPLES must not depend on map order
	"JSIGHT 0.3\nTYPE @id regex\n/[a-z]{3}/\nTYPE @person\n{\n  \"id\": @id\n}\nTYPE @pet\n{\n  \"id\": @id\n}\nGET /p\n  200 @person\nGET /q\n  200\n  {\"tag\": @id}\n",
}

func vC06Cycle(faults int, enum bool) string {
	order := 0
	if enum {
		order = 1
	}
	doc, _ := vTypeCycleDoc(faults, order, enum)
	return doc
}

// HDeterminism (C06): the same project built with insertion-ordered maps and built
// again with ONE range-over-map site (param site, numbered in execution order, repo
// and jsight-schema-core alike) iterating in a symbolic order: same result.
func HDeterminism() {
	di := vParam("doc", 0)
	var doc string
	if di < len(vC06Docs) {
		doc = vC06Docs[di]
	} else {
		doc = vLayoutDocs[di-len(vC06Docs)]
	}
	site := vParam("site", 0)
	vMapOrderSite(-1)
	cA, jeA := vBuildProject(doc, vLayoutFiles)
	reps := 1
	if !vSymbolic() {
		reps = 200 // natively the iteration order is random: repeat to meet other orders
	}
	for r := 0; r < reps; r++ {
		vMapOrderSite(site)
		cB, jeB := vBuildProject(doc, vLayoutFiles)
		// the serialisations of B run under the perturbed site too (their own range-over-map
		// sites are numbered after those of the build)
		jsonB, oaB := "", ""
		if jeB == nil {
			jsonB, oaB = vSerialise(cB, 0), vSerialise(cB, 2)
		}
		if vSymbolic() && vMapOrderSites() <= site {
			vReach("no-such-site") // the driver stops increasing the site number
		}
		vMapOrderSite(-1)
		vAssert((jeA == nil) == (jeB == nil), "c06-accept-reject-depends-on-map-order")
		if jeA != nil {
			vAssert(jeA.Msg == jeB.Msg, "c06-error-message-depends-on-map-order")
			vAssert(jeA.File.Name() == jeB.File.Name() && jeA.Index == jeB.Index, "c06-error-location-depends-on-map-order")
			vAssert(jeA.Error() == jeB.Error(), "c06-include-trace-depends-on-map-order")
		} else {
			vSameDigest(vEmit(cA), vEmit(cB), "c06-catalog-depends-on-map-order") // with the examples the emitter writes
			// and the bytes of the serialisations themselves
			vAssert(vSerialise(cA, 0) == jsonB, "c06-tojson-bytes-depend-on-map-order")
			vAssert(vSerialise(cA, 2) == oaB, "c06-openapi-bytes-depend-on-map-order")
		}
	}
	if jeA != nil {
		vReach("same-error")
		vObserve("err", int(jeA.Index), strings.SplitN(jeA.Msg, "\"", 2)[0])
	} else {
		vReach("same-catalog")
		vObserve("ok")
	}
	_ = jerr.RuntimeFailure
}

func init() { vRegister("HDeterminism", HDeterminism) }

// HRebuild (C06, "nothing observable depends on prior builds"): two projects are built
// one after the other in the same process; they live at the SAME paths and differ in the
// (symbolic) content of the root file and of an included file. What the second build says
// must be what the second project says — nothing of the first build may survive.
func HRebuild() {
	nameOf := func(id string) string {
		b := vBytes(id, 2)
		for _, c := range b {
			vAssume(c >= 'a' && c <= 'z')
		}
		return string(b)
	}
	build := func(tag, typ, macro string, fail bool) (*JApiCore, *jerr.JApiError) {
		inc := "TAG @" + tag + "\nTYPE @" + typ + "\n{}\n"
		if fail {
			inc += "TYPE @" + typ + "\n{}\n" // a duplicate: the build fails in the included file
		}
		root := "JSIGHT 0.3\nINCLUDE inc/defs.jst\nMACRO @" + macro + "\n(\n  200 @" + typ + "\n)\nGET /" + tag + "\n  Tags @" + tag + "\n  PASTE @" + macro + "\n"
		return vBuildProject(root, map[string]string{"inc/defs.jst": inc})
	}
	// tag / path names: a symbolic choice among concrete names (a symbolic path would be
	// concretised by the path-tag code); type and macro names: symbolic bytes
	pick := func(id string) string {
		if vBool(id) {
			return "cats"
		}
		return "dogs"
	}
	t1, y1, m1 := pick("tagA"), nameOf("y1"), nameOf("m1")
	t2, y2, m2 := pick("tagB"), nameOf("y2"), nameOf("m2")
	fail1 := vBool("fail1")
	_, je1 := build(t1, y1, m1, fail1)
	if je1 != nil {
		vObserve("err1", je1.Msg, int(je1.Index))
	}
	vAssert((je1 != nil) == fail1, "c06-first-build-verdict")
	c2, je2 := build(t2, y2, m2, false)
	vAssert(je2 == nil, "c06-second-build-depends-on-the-first")
	want := []string{
		"type @" + y2 + " \"\" jsight {}",
		"tag @" + t2 + " \"@" + t2 + "\" <nil> [http GET /" + t2 + "]",
	}
	d := vDigest(c2)
	for _, w := range want {
		found := false
		for _, l := range d {
			if l == w {
				found = true
			}
		}
		vAssert(found, "c06-second-build-says-something-of-the-first")
	}
	vAssert(len(d) == 6, "c06-second-build-carries-extra-entities") // jsight, type, tag, http, response, body
	vReach("rebuilt")
	vObserve("ok", len(d))
}

func init() { vRegister("HRebuild", HRebuild) }
