package core

import (
	"strings"

	"github.com/jsightapi/jsight-schema-core/fs"

	"github.com/jsightapi/jsight-api-core/jerr"
)

func vIndent(text string, n int) string {
	pad := strings.Repeat(" ", n)
	var sb strings.Builder
	for _, l := range strings.SplitAfter(text, "\n") {
		if l != "" {
			sb.WriteString(pad + l)
		}
	}
	return sb.String()
}

type vSite struct {
	before string
	indent int
	after  string
}

var vC10Sites = []vSite{
	{"JSIGHT 0.3\nTAG @t\nENUM @first\n[1]\nGET /a\n  200 any\n", 0, ""},
	{"JSIGHT 0.3\nTAG @t\nGET /a\n  200 any\n", 2, ""},
	{"JSIGHT 0.3\nTAG @t\nURL /u\n  GET\n    200 any\n", 4, ""},
	{"JSIGHT 0.3\nTAG @t\nGET /a\n  200 any\nMACRO @outer\n(\n", 2, ")\nPASTE @outer\n"},
	{"JSIGHT 0.3\nTAG @t\nURL /u\n  GET\n    200 any\n", 2, ""},
}

var vC10Bodies = []string{
	"404 any\n",
	"ENUM @colors\n[\"red\"]\n",
	"POST /b\n  200 any\n",
	"Request\n  Body any\n",
	"POST\n(\n  201 any\n)\n",
	"TYPE @x any\n",
	"Description\n  some text\n",
	"404 any\n405 @x\nTYPE @x any\n",
	"Headers\n{\"h\": 1}\n",
	"GET /c/{id}\n  200 any\n",
	"URL /d/{name}\n  GET\n    200 any\n  DELETE /e/{x}/{y}\n    204 empty\n",
}

var vC10Followers = []string{"", "Tags @t\n", "Description\n  d2\n", "500 any\n"}

func vBuildText(doc string) (*JApiCore, *jerr.JApiError) {
	c := NewJApiCore(fs.NewFile("/vfs/root.jst", []byte(doc)))
	return c, c.BuildCatalog()
}

// vBuildPhases runs the same phases as BuildCatalog but reports a scan-time error separately.
func vBuildPhases(doc string) (c *JApiCore, scanErr, laterErr *jerr.JApiError) {
	c = NewJApiCore(fs.NewFile("/vfs/root.jst", []byte(doc)))
	if je := c.scanProject(); je != nil {
		return c, je, nil
	}
	if je := c.compileCore(); je != nil {
		return c, nil, je
	}
	if je := c.buildCatalog(); je != nil {
		return c, nil, je
	}
	if je := c.compileCatalog(); je != nil {
		return c, nil, je
	}
	return c, nil, c.validateCatalog()
}

// HPasteText (C10, text level): a block written in place vs. the same block moved
// into MACRO @m ( ... ) and called by PASTE @m — call site, block, following
// directive, its indentation and the position of the MACRO definition are symbolic.
func HPasteText() {
	site := vC10Sites[vInt("site", 0, len(vC10Sites)-1)]
	body := vC10Bodies[vInt("body", 0, len(vC10Bodies)-1)]
	fol := vC10Followers[vInt("fol", 0, len(vC10Followers)-1)]
	folIndent := site.indent
	if vBool("folOuter") && folIndent >= 2 {
		folIndent -= 2
	}
	defPos := vInt("defPos", 0, 2) // the MACRO definition: before JSIGHT / right after it / at the end

	docA := site.before + vIndent(body, site.indent) + vIndent(fol, folIndent) + site.after
	macro := "MACRO @m\n(\n" + vIndent(body, 2) + ")\n"
	docB := site.before + vIndent("PASTE @m\n", site.indent) + vIndent(fol, folIndent) + site.after
	switch defPos {
	case 0:
		docB = macro + docB
	case 1:
		docB = strings.Replace(docB, "JSIGHT 0.3\n", "JSIGHT 0.3\n"+macro, 1)
	default:
		docB += macro
	}
	cA, jeA := vBuildText(docA)
	cB, scanB, jeB := vBuildPhases(docB)
	// the rewritten document must itself be legal for the scan (PASTE admitted at the call
	// site, the following directive admitted next to a PASTE): otherwise it is not a rewrite
	vAssume(scanB == nil)
	vAssert((jeA == nil) == (jeB == nil), "c10t-paste-changes-accept-reject")
	if jeA != nil {
		// rule errors: same message class (text before the first quote)
		ma, mb := jeA.Msg, jeB.Msg
		if i := strings.IndexByte(ma, '"'); i >= 0 {
			ma = ma[:i]
		}
		if i := strings.IndexByte(mb, '"'); i >= 0 {
			mb = mb[:i]
		}
		vAssert(ma == mb, "c10t-paste-changes-error-message")
		vReach("both-rejected")
		vObserve("rejected", ma)
		return
	}
	vSameDigest(vDigestDeep(cA), vDigestDeep(cB), "c10t-paste-changes-catalog")
	if vParam("closure", 0) == 1 {
		vCheckClosure(cB)
	}
	vReach("same-catalog")
	vObserve("same")
}

func init() { vRegister("HPasteText", HPasteText) }
