package core

import (
	"sort"
	"strings"

	"github.com/jsightapi/jsight-api-core/catalog"
)

// HUsedModel (C05, and C02 for completeness): the ways a schema can name a user type
// or enum. A response body is assembled from a symbolic subset of 10 reference forms
// (property of a type, array of a type, or-rule, enum rule, type union, allOf on a
// nested object, key shortcut, allOf on the root, type rule, additionalProperties);
// for ONE symbolically chosen form the name may be an undefined one. The document is
// rejected exactly when an undefined name is used; otherwise the closure invariants
// hold and the body's usedUserTypes are exactly the types its selected forms name.
func HUsedModel() {
	type form struct {
		text  string // %T = type name placeholder, %E = enum name placeholder
		types []string
		root  bool
	}
	forms := []form{
		{" \"r1\": %T", []string{"%T"}, false},
		{" \"r2\": [%T]", []string{"%T"}, false},
		{" \"r3\": 1 // {or: [\"%S\", \"integer\"]}", []string{"%S"}, false},
		{" \"r4\": \"u\" // {enum: %E}", nil, false},
		{" \"r5\": %T | %S", []string{"%T", "%S"}, false},
		{" \"r6\": {} // {allOf: \"%T\"}", []string{"%T"}, false},
		{" %S : 1", []string{"%S"}, false},
		{"{allOf: [\"%T\"]}", []string{"%T"}, true},
		{" \"r7\": \"x\" // {type: \"%S\"}", []string{"%S"}, false},
		{" \"r8\": {} // {additionalProperties: \"%S\"}", []string{"%S"}, false},
	}
	bad := vInt("bad", -1, len(forms)-1) // the form that names an undefined type / enum (-1: none)
	var props []string
	rootRule := ""
	usesBad := false
	want := map[string]bool{}
	for i, f := range forms {
		if !vBool("f" + string(rune('0'+i))) {
			continue
		}
		T, S, E := "@a", "@s", "@e"
		if i == bad {
			T, S, E = "@zz", "@zz", "@zz"
			usesBad = true
		}
		txt := strings.NewReplacer("%T", T, "%S", S, "%E", E).Replace(f.text)
		if f.root {
			rootRule = " // " + txt
		} else {
			props = append(props, "   "+txt)
		}
		for _, t := range f.types {
			want[strings.NewReplacer("%T", T, "%S", S).Replace(t)] = true
		}
	}
	if len(props) == 0 {
		props = append(props, "    \"q\": 1")
	}
	// the comma that separates properties goes before the rule comment of the line
	for i := 0; i+1 < len(props); i++ {
		if j := strings.Index(props[i], " // "); j >= 0 {
			props[i] = props[i][:j] + "," + props[i][j:]
		} else {
			props[i] += ","
		}
	}
	body := "  {" + rootRule + "\n" + strings.Join(props, "\n") + "\n  }\n"
	doc := "JSIGHT 0.3\nTYPE @a\n{\"p\": 1}\nTYPE @s\n\"x\"\nENUM @e\n[\"u\", \"v\"]\nGET /x\n  200\n" + body
	c, je := vBuildText(doc)
	if usesBad {
		vAssert(je != nil, "c05-undefined-name-in-schema-accepted")
		vAssert(strings.Contains(je.Msg, "not found"), "c05-undefined-name-wrong-message")
		vReach("undefined-rejected")
		vObserve("rejected", je.Msg)
		return
	}
	vAssert(je == nil, "c05-valid-references-rejected")
	vCheckClosure(c)
	var got []string
	_ = c.catalog.Interactions.Each(func(k catalog.InteractionID, v catalog.Interaction) error {
		in := v.(*catalog.HTTPInteraction)
		types, _, err := catalog.VUsedNames(in.Responses[0].Body.Schema)
		vAssert(err == nil, "c05-emitter-compile-error")
		got = append(got, types...)
		return nil
	})
	var wantList []string
	for t := range want {
		wantList = append(wantList, t)
	}
	sort.Strings(wantList)
	sort.Strings(got)
	vAssert(strings.Join(got, ",") == strings.Join(wantList, ","), "c02-used-user-types-differ-from-the-references-written")
	vReach("closed")
	vObserve("used", strings.Join(got, ","))
}

func init() { vRegister("HUsedModel", HUsedModel) }

// HClosureNoDirective (C05): projects in which no directive is left to build — an empty
// file, blanks, comments, MACRO definitions only, an INCLUDE of such a file (symbolic
// choice, with one symbolic blank/comment byte): if a catalog comes out, it is a closed
// catalog of JSight 0.3 like any other.
func HClosureNoDirective() {
	b := vByte("b")
	vAssume(b == ' ' || b == '\n' || b == '\t' || b == '\r')
	docs := []string{
		"",
		string([]byte{b}),
		"# only a comment" + string([]byte{b}),
		"###\nblock\n###" + string([]byte{b}),
		"MACRO @m\n(\n  GET /a\n    200 any\n)\n",
		"MACRO @m\n(\n  TAG @t\n)\nMACRO @n\n(\n  PASTE @m\n)\n",
		"INCLUDE empty.jst\n",
		// a version that only starts like the supported one (two symbolic bytes)
		"JSIGHT 0.3" + vVersionSuffix() + "\nGET /a\n  200 any\n",
	}
	doc := docs[vInt("doc", 0, len(docs)-1)]
	c, je := vBuildProject(doc, map[string]string{"empty.jst": "# nothing\n"})
	if je != nil {
		vAssert(strings.HasPrefix(je.File.Name(), vPath("/vfs/p/")), "c05-error-file-not-in-project")
		vReach("rejected")
		vObserve("rejected", je.Msg)
		return
	}
	vCheckClosure(c)
	vReach("closed")
	vObserve("ok")
}

func vVersionSuffix() string {
	s := vBytes("ver", 2)
	for _, c := range s {
		vAssume(c > ' ' && c < 0x7f && c != '#' && c != '"' && c != '/')
	}
	return string(s)
}

func init() { vRegister("HClosureNoDirective", HClosureNoDirective) }
