package core

import (
	"encoding/json"

	"github.com/jsightapi/jsight-schema-core/fs"

	"github.com/jsightapi/jsight-api-core/catalog"
	"github.com/jsightapi/jsight-api-core/catalog/ser/openapi"
)

// HCorpus: build one file of /repo/testdata (fully concrete). Used to validate the
// engine itself: the engine's observations must equal the native ones.
func HCorpus() {
	name, content := vCorpusFile(vParam("i", 0))
	f := fs.NewFile(name, content)
	c := NewJApiCore(f)
	je := c.BuildCatalog()
	if je != nil {
		fn := ""
		if je.File != nil {
			fn = je.File.Name()
		}
		vObserve("err", fn, int(je.Index), je.Error())
		return
	}
	vObserve("ok", len(c.directivesWithPastes), c.catalog.Interactions.Len(), c.catalog.UserTypes.Len(), c.catalog.Tags.Len(), c.catalog.JSightVersion)
	_ = c.catalog.Interactions.Each(func(k catalog.InteractionID, v catalog.Interaction) error {
		vObserve("interaction", k.String())
		return nil
	})
	// the serialisations, byte for byte: natively encoding/json, in the engine its model over
	// interpreter values (symgo/json.go) driving the real MarshalJSON / MarshalText methods
	if vParam("json", 1) == 1 {
		b, err := c.catalog.ToJson()
		vObserve("json", len(b), vHash(b), err != nil)
		bi, err := c.catalog.ToJsonIndent()
		vObserve("json-indent", len(bi), vHash(bi), err != nil)
		func() {
			defer func() {
				if r := recover(); r != nil {
					vObserve("openapi-panic")
				}
			}()
			oa, oerr := openapi.NewOpenAPI(c.catalog)
			if oerr != nil {
				vObserve("openapi-error", oerr.Error())
				return
			}
			ob, err := json.Marshal(oa)
			vObserve("openapi", len(ob), vHash(ob), err != nil)
		}()
	}
}

// vHash: FNV-1a of a byte slice (to compare serialisations without observing megabytes).
func vHash(b []byte) int {
	h := uint32(2166136261)
	for _, c := range b {
		h ^= uint32(c)
		h *= 16777619
	}
	return int(h)
}

func init() { vRegister("HCorpus", HCorpus) }
