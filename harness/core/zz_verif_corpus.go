package core

import (
	"github.com/jsightapi/jsight-schema-core/fs"

	"github.com/jsightapi/jsight-api-core/catalog"
)

// HCorpus: build one file of /repo/testdata (fully concrete). Used to validate the
// engine itself: the engine's observations must equal the native ones.
func HCorpus() {
	name, content := vCorpusFile(vParam("i", 0))
	f := fs.NewFile(name, content)
	c := NewJApiCore(f)
	je := c.BuildCatalog()
	if je != nil {
		fn := ""
		if je.File != nil {
			fn = je.File.Name()
		}
		vObserve("err", fn, int(je.Index), je.Error())
		return
	}
	vObserve("ok", len(c.directivesWithPastes), c.catalog.Interactions.Len(), c.catalog.UserTypes.Len(), c.catalog.Tags.Len(), c.catalog.JSightVersion)
	_ = c.catalog.Interactions.Each(func(k catalog.InteractionID, v catalog.Interaction) error {
		vObserve("interaction", k.String())
		return nil
	})
}

func init() { vRegister("HCorpus", HCorpus) }
