package core

import (
	"encoding/json"
	"strings"

	"github.com/jsightapi/jsight-schema-core/fs"

	"github.com/jsightapi/jsight-api-core/catalog"
	"github.com/jsightapi/jsight-api-core/catalog/ser/openapi"
)

// HCorpus: build one file of /repo/testdata (fully concrete). Used to validate the
// engine itself: the engine's observations must equal the native ones.
func HCorpus() {
	name, content := vCorpusFile(vParam("i", 0))
	f := fs.NewFile(name, content)
	c := NewJApiCore(f)
	je := c.BuildCatalog()
	if je != nil {
		fn := ""
		if je.File != nil {
			fn = je.File.Name()
		}
		vObserve("err", fn, int(je.Index), je.Error())
		return
	}
	vObserve("ok", len(c.directivesWithPastes), c.catalog.Interactions.Len(), c.catalog.UserTypes.Len(), c.catalog.Tags.Len(), c.catalog.JSightVersion)
	_ = c.catalog.Interactions.Each(func(k catalog.InteractionID, v catalog.Interaction) error {
		vObserve("interaction", k.String())
		return nil
	})
	// the serialisations, byte for byte: natively encoding/json, in the engine its model over
	// interpreter values (symgo/json.go) driving the real MarshalJSON / MarshalText methods
	if vParam("json", 1) == 1 {
		b, err := c.catalog.ToJson()
		vObserve("json", len(b), vHash(b), err != nil)
		bi, err := c.catalog.ToJsonIndent()
		vObserve("json-indent", len(bi), vHash(bi), err != nil)
		func() {
			defer func() {
				if r := recover(); r != nil {
					vObserve("openapi-panic")
				}
			}()
			oa, oerr := openapi.NewOpenAPI(c.catalog)
			if oerr != nil {
				vObserve("openapi-error", oerr.Error())
				return
			}
			ob, err := json.Marshal(oa)
			vObserve("openapi", len(ob), vHash(ob), err != nil)
		}()
	}
}

// vHash: FNV-1a of a byte slice (to compare serialisations without observing megabytes).
func vHash(b []byte) int {
	h := uint32(2166136261)
	for _, c := range b {
		h ^= uint32(c)
		h *= 16777619
	}
	return int(h)
}

func init() { vRegister("HCorpus", HCorpus) }

// HCorpusHole (C01, C04, C17): a file of the repository's own corpus (/repo/testdata, 1108
// projects written by the maintainers: every feature of the language, the schema rules and
// the negative cases) with k symbolic bytes substituted at a cut (k = 0: the file as it is).
// Whatever the bytes: the build terminates without a panic (C01); an ACCEPTED project
// serialises to JDoc Exchange JSON of the right shape (C04) and its OpenAPI export is an
// error value or a sound document, never a panic (C17). Files that the project INCLUDEs are
// read from the real file system; an INCLUDE whose name holds a symbolic byte resolves to
// nothing.
func HCorpusHole() {
	i := vParam("i", 0)
	if hi := vParam("hi", -1); hi >= 0 {
		i = vInt("i", vParam("lo", 0), hi) // every file of the window: one path each
	}
	name, content := vCorpusFile(i)
	cut, k := vParam("cut", 0), vParam("k", 2)
	if cut > len(content) {
		cut = len(content)
	}
	data := append([]byte(nil), content[:cut]...)
	data = append(data, vBytes("d", k)...)
	if cut+k < len(content) {
		data = append(data, content[cut+k:]...)
	}
	c := NewJApiCore(fs.NewFile(name, data))
	je := c.BuildCatalog()
	if je != nil {
		vAssert(je.File != nil && int(je.Index) <= je.File.Content().Len(), "c01-error-location-outside-file")
		vReach("rejected")
		vObserve("rejected")
		return
	}
	which := vParam("check", 0)
	if which == 0 || which == 4 {
		for _, l := range vEmit(c) {
			vAssert(!strings.Contains(l, "error:"), "c04-serialisation-step-fails-for-an-accepted-document")
			vAssert(!strings.Contains(l, "ILL-TYPED"), "c04-content-node-typed-inconsistently")
		}
		vCheckJSON(c)
	}
	if which == 0 || which == 17 {
		vExportNoPanic(c)
		vCheckOpenAPIJSON(c)
	}
	if which == 16 {
		// C16: the five accessors, three rounds: each returns the bytes of its first call
		var first [5]string
		for round := 0; round < 3; round++ {
			for w := 0; w <= 4; w++ {
				got := ""
				if w == 4 {
					if c.catalog.Info != nil {
						got = c.catalog.Info.Title
					}
				} else {
					got = vSerialise(c, w)
				}
				if round == 0 {
					first[w] = got
				} else {
					vAssert(got == first[w], "c16-accessor-returns-other-bytes-than-before")
				}
			}
		}
	}
	vReach("accepted")
	vObserve("accepted")
}

func init() { vRegister("HCorpusHole", HCorpusHole) }
