package core

import (
	"encoding/json"
	"strings"

	"github.com/jsightapi/jsight-api-core/catalog"
	"github.com/jsightapi/jsight-api-core/catalog/ser/openapi"
)

// vEmit: the data ToJson / ToJsonIndent hand to encoding/json for the whole catalog:
// the digest of every entity plus, for every schema, content, rules, used names and the
// EXAMPLE, each obtained the way the MarshalJSON methods obtain it.
func vEmit(c *JApiCore) []string {
	out := vDigest(c)
	cat := c.catalog
	add := func(parts ...string) { out = append(out, strings.Join(parts, " ")) }
	_ = cat.UserTypes.Each(func(k string, v *catalog.UserType) error {
		add("emit type", k, catalog.VSchemaEmit(v.Schema))
		return nil
	})
	_ = cat.UserEnums.Each(func(k string, v *catalog.UserRule) error {
		add("emit enum", k, catalog.VRuleDigest(v.Value))
		return nil
	})
	_ = cat.Interactions.Each(func(k catalog.InteractionID, v catalog.Interaction) error {
		switch in := v.(type) {
		case *catalog.HTTPInteraction:
			if in.PathVariables != nil {
				add("emit pathvars", k.String(), catalog.VSchemaEmit(in.PathVariables.Schema))
			}
			if in.Query != nil {
				add("emit query", k.String(), catalog.VSchemaEmit(in.Query.Schema))
			}
			if in.Request != nil {
				if in.Request.HTTPRequestHeaders != nil {
					add("emit request-headers", k.String(), catalog.VSchemaEmit(in.Request.HTTPRequestHeaders.Schema))
				}
				if in.Request.HTTPRequestBody != nil {
					add("emit request-body", k.String(), catalog.VSchemaEmit(in.Request.HTTPRequestBody.Schema))
				}
			}
			for _, r := range in.Responses {
				if r.Headers != nil {
					add("emit response-headers", k.String(), r.Code, catalog.VSchemaEmit(r.Headers.Schema))
				}
				if r.Body != nil {
					add("emit response-body", k.String(), r.Code, catalog.VSchemaEmit(r.Body.Schema))
				}
			}
		case *catalog.JsonRpcInteraction:
			if in.Params != nil {
				add("emit params", k.String(), catalog.VSchemaEmit(in.Params.Schema))
			}
			if in.Result != nil {
				add("emit result", k.String(), catalog.VSchemaEmit(in.Result.Schema))
			}
		}
		return nil
	})
	return out
}

var vC16Docs = []string{
	// regex user type, a jsight type that refers to it (its example draws from the regex type), regex bodies
	"JSIGHT 0.3\nINFO\n  Title \"T\"\nTYPE @r regex\n/[a-z]{3,8}\\d+/\nTYPE @o\n{\n  \"x\": @r,\n  \"y\": [@r]\n}\nGET /x\n  200 regex\n  /(foo|bar|baz){2}x*/\nPOST /y\n  Request @o\n  200 @o\n",
	// allOf inheritance, enums, path variables, query
	"JSIGHT 0.3\nENUM @e\n[1, 2]\nTYPE @base\n{\n  \"id\": 1 // {enum: @e}\n}\nTYPE @kid\n{ // {allOf: \"@base\"}\n  \"n\": \"s\"\n}\nGET /k/{id}\n  Query\n  {\"q\": 1}\n  200 @kid\n",
	// several responses with the same code (the export joins them), annotated root values, a regex that matches the empty string
	"JSIGHT 0.3\nTYPE @cat\n{ // a cat\n  \"n\": \"Tom\"\n}\nTYPE @opt regex\n/[a-z]*/\nSERVER @s1\n  BaseUrl \"https://a\"\nSERVER @s2\n  BaseUrl \"https://b\"\nGET /c\n  200 @cat // first\n  200 // second\n  { // inline note\n    \"k\": @opt\n  }\n  404 regex\n  /x?/\n",
	// JSON-RPC
	"JSIGHT 0.3\nTYPE @r regex\n/z+/\nURL /rpc\n  Protocol json-rpc-2.0\n  Method m\n    Params\n    {\"p\": @r}\n    Result\n    [@r]\n",	// everything in the plural: three tags on one operation, three path parameters, several query
	// parameters, request and response headers, several types and enums, several response codes
	"JSIGHT 0.3\nTAG @a\nTAG @b\nTAG @c\nENUM @e1\n[1, 2]\nENUM @e2\n[\"x\", \"y\"]\nTYPE @t1\n{\"a\": 1, \"b\": 2, \"c\": 3}\nTYPE @t2\n{\n  \"e\": 1 // {enum: @e1}\n}\nTYPE @t3\n[@t1, @t2]\n" +
		"GET /p/{x}/{y}/{z}\n  Tags @c @a @b\n  Query\n  {\"q1\": 1, \"q2\": \"s\", \"q3\": true}\n  Request\n    Headers\n    {\"h1\": \"a\", \"h2\": \"b\", \"h3\": \"c\"}\n    Body @t1\n  200\n    Headers\n    {\"r1\": 1, \"r2\": 2}\n    Body @t3\n  404 @t2\n  500 any\n" +
		"POST /p/{x}\n  Tags @b @c\n  Request @t3\n  201 @t1\n",
}

// HRepeat (C16, emitter level): a catalog is serialised several times, with a symbolic
// sequence of other calls (serialise / Title, up to three) in between: what is handed to
// encoding/json is every time what its FIRST serialisation handed over.
func HRepeat() {
	doc := vC16Docs[vInt("doc", 0, len(vC16Docs)-1)]
	c, je := vBuildText(doc)
	vAssert(je == nil, "c16-fixture-rejected")
	title := c.catalog.Info
	// every serialisation of THIS catalog is compared with its first one (two builds of one
	// project may differ in their generated examples: C06, F-C06-regex-example-map-order)
	var ref []string
	check := func() {
		got := vEmit(c)
		if ref == nil {
			ref = got
			return
		}
		for i := range ref {
			if i < len(got) && got[i] != ref[i] {
				vObserve("diff", ref[i], got[i])
			}
		}
		vAssert(len(got) == len(ref), "c16-serialisation-depends-on-earlier-calls-entity-count")
		for i := range ref {
			vAssert(got[i] == ref[i], "c16-serialisation-depends-on-earlier-calls")
		}
	}
	for i := 0; i < 3; i++ {
		switch vInt("op"+string(rune('0'+i)), 0, 3) {
		case 1:
			check() // ToJson / ToJsonIndent
		case 2:
			if title != nil {
				_ = title.Title // Title()
			}
		case 3:
			// ToOpenAPIJson / ToOpenAPIJsonIndent up to the call of encoding/json: the export must
			// leave the catalog as it found it
			_, _ = openapi.NewOpenAPI(c.catalog)
		}
	}
	check()
	check()
	vReach("repeatable")
	vObserve("ok", len(ref))
}

func init() { vRegister("HRepeat", HRepeat) }

// HEmitHole (C04, emitter level): whenever a document of the hole family (a representative
// document with k symbolic bytes substituted at a cut) is ACCEPTED, every step that ToJson
// performs before it calls encoding/json succeeds: the emitter-side compilation of every
// schema (content, allOf inheritance, used names), its example, the pseudo-schema
// notations; and every content node is typed consistently (containers carry children and
// no scalar value, the others a scalar value and no children).
func HEmitHole() {
	doc := vHoleDocs[vParam("doc", 0)]
	cut, k := vParam("cut", 0), vParam("k", 2)
	if cut > len(doc) {
		cut = len(doc)
	}
	data := append([]byte(doc[:cut]), vBytes("d", k)...)
	if cut+k < len(doc) {
		data = append(data, doc[cut+k:]...)
	}
	c, je := vBuildProject(string(data), map[string]string{"inc.jst": "PATCH /dogs\n  200 any\nDELETE /dogs\n  200 any\n"})
	if je != nil {
		vReach("rejected")
		vObserve("rejected")
		return
	}
	for _, l := range vEmit(c) {
		vAssert(!strings.Contains(l, "error:"), "c04-serialisation-step-fails-for-an-accepted-document")
		vAssert(!strings.Contains(l, "ILL-TYPED"), "c04-content-node-typed-inconsistently")
	}
	vCheckJSON(c)
	vReach("emitted")
	vObserve("ok")
}

func init() { vRegister("HEmitHole", HEmitHole) }

// vSerialise: the four serialisations of a catalog as kit.JApi produces them (ToJson,
// ToJsonIndent, ToOpenAPIJson, ToOpenAPIJsonIndent) — the REAL code, with encoding/json
// modelled over interpreter values in the engine (validated byte for byte against the
// native bytes of every corpus file by `vcheck SELFTEST`). An error is rendered as text.
func vSerialise(c *JApiCore, which int) string {
	var b []byte
	var err error
	switch which {
	case 0:
		b, err = c.catalog.ToJson()
	case 1:
		b, err = c.catalog.ToJsonIndent()
	default:
		oa, oerr := openapi.NewOpenAPI(c.catalog)
		if oerr != nil {
			return "openapi-error:" + oerr.Error()
		}
		if which == 2 {
			b, err = json.Marshal(oa)
		} else {
			b, err = json.MarshalIndent(oa, "", "  ")
		}
	}
	if err != nil {
		return "error:" + err.Error()
	}
	return string(b)
}

// HRepeatBytes (C16): the five accessors of a built catalog called in a symbolic sequence
// (up to four calls, any of ToJson / ToJsonIndent / ToOpenAPIJson / ToOpenAPIJsonIndent /
// Title): each accessor returns, every time, the bytes of its first call.
func HRepeatBytes() {
	var doc string
	if vParam("site", -1) >= 0 {
		doc = vC16Docs[vParam("docp", 0)] // sites are numbered per document
	} else {
		doc = vC16Docs[vInt("doc", 0, len(vC16Docs)-1)]
	}
	c, je := vBuildText(doc)
	vAssert(je == nil, "c16-fixture-rejected")
	first := map[int]string{}
	call := func(which int) {
		var got string
		if which == 4 {
			if c.catalog.Info != nil {
				got = c.catalog.Info.Title
			}
		} else {
			got = vSerialise(c, which)
		}
		if prev, ok := first[which]; ok {
			vAssert(got == prev, "c16-accessor-returns-other-bytes-than-before")
		} else {
			first[which] = got
		}
	}
	if vParam("site", -1) < 0 {
		for i := 0; i < 4; i++ {
			call(vInt("call"+string(rune('0'+i)), 0, 4))
		}
	}
	// and finally each once more — under ONE range-over-map site iterating in a symbolic order
	// (param site; -1: none): a serialiser that walks a Go map may not let the order show
	site := vParam("site", -1)
	for w := 0; w <= 4; w++ {
		call(w)
	}
	vMapOrderSite(site)
	rounds := 1
	if !vSymbolic() {
		rounds = 50 // natively the iteration order is random: repeat to meet other orders
	}
	for r := 0; r < rounds; r++ {
		for w := 0; w <= 4; w++ {
			call(w)
		}
	}
	if vSymbolic() && site >= 0 && vMapOrderSites() <= site {
		vReach("no-such-site")
	}
	vMapOrderSite(-1)
	vReach("repeatable")
	vObserve("ok", len(first[0]), len(first[2]))
}

func init() { vRegister("HRepeatBytes", HRepeatBytes) }

// vCheckJSON (C04): ToJson and ToJsonIndent of an accepted catalog succeed, return valid
// UTF-8 JSON, agree up to whitespace and carry the fixed top-level keys of JDoc Exchange
// 2.0.0 and every interaction, tag, server, user type and enum under its name.
func vCheckJSON(c *JApiCore) {
	j, ji := vSerialise(c, 0), vSerialise(c, 1)
	vAssert(!strings.HasPrefix(j, "error:"), "c04-tojson-fails-for-an-accepted-document")
	vAssert(!strings.HasPrefix(ji, "error:"), "c04-tojsonindent-fails-for-an-accepted-document")
	vAssert(vJSONValid([]byte(j)), "c04-tojson-is-not-valid-utf8-json")
	vAssert(vJSONValid([]byte(ji)), "c04-tojsonindent-is-not-valid-utf8-json")
	vAssert(vJSONCompact([]byte(ji)) == j, "c04-tojson-and-tojsonindent-differ-beyond-whitespace")
	vAssert(strings.HasPrefix(j, "{\"tags\":{"), "c04-top-level-does-not-start-with-tags")
	vAssert(strings.Contains(j, "\"interactions\":{"), "c04-no-interactions-key")
	vAssert(strings.HasSuffix(j, "\"jsight\":\"0.3\",\"jdocExchangeVersion\":\"2.0.0\"}"), "c04-version-keys")
	cat := c.catalog
	// (names are looked up in the PARSED document below: in the raw bytes encoding/json writes
	// '&', '<', '>' of a path or a name as \u0026 …, so a textual search would demand the wrong thing)
	vAssert(!strings.Contains(j, "\"interactionGroups\":null"), "c04-tag-without-interaction-groups-array")
	vAssert(!strings.Contains(j, "\"body\":null"), "c04-response-without-body-object")
	// the JDoc Exchange 2.0.0 shape, walked on the parsed bytes (zz_verif_shape.go)
	bad, _ := vShape(j)
	vAssert(bad == "", "c04-jdoc-exchange-shape: "+bad)
	badI, _ := vShape(ji)
	vAssert(badI == "", "c04-jdoc-exchange-shape-indent: "+badI)
	// every entity of the catalog is in the bytes, under its key
	top, _ := vJSONParse(j)
	_ = cat.Interactions.Each(func(k catalog.InteractionID, v catalog.Interaction) error {
		vAssert(top.get("interactions").get(k.String()) != nil, "c04-interaction-missing-in-the-bytes")
		return nil
	})
	vAssert(len(top.get("interactions").keys) == cat.Interactions.Len(), "c04-interactions-invented")
	_ = cat.Tags.Each(func(k catalog.TagName, _ *catalog.Tag) error {
		vAssert(top.get("tags").get(string(k)) != nil, "c04-tag-missing-in-the-bytes")
		return nil
	})
	_ = cat.UserTypes.Each(func(k string, _ *catalog.UserType) error {
		vAssert(top.get("userTypes").get(k) != nil, "c04-user-type-missing-in-the-bytes")
		return nil
	})
	_ = cat.UserEnums.Each(func(k string, _ *catalog.UserRule) error {
		vAssert(top.get("userEnums").get(k) != nil, "c04-user-enum-missing-in-the-bytes")
		return nil
	})
	_ = cat.Servers.Each(func(k string, _ *catalog.Server) error {
		vAssert(top.get("servers").get(k) != nil, "c04-server-missing-in-the-bytes")
		return nil
	})
}

// vCheckOpenAPIJSON (C17): if the export succeeds, its JSON is valid, both forms agree up to
// whitespace, and every $ref names a schema of components.
func vCheckOpenAPIJSON(c *JApiCore) {
	o, oi := vSerialise(c, 2), vSerialise(c, 3)
	if strings.HasPrefix(o, "openapi-error:") {
		return // an error value: allowed
	}
	vAssert(!strings.HasPrefix(o, "error:") && !strings.HasPrefix(oi, "error:"), "c17-marshal-of-the-document-fails")
	vAssert(vJSONValid([]byte(o)), "c17-openapi-json-invalid")
	vAssert(vJSONCompact([]byte(oi)) == o, "c17-openapi-json-and-indent-differ-beyond-whitespace")
	vAssert(strings.HasPrefix(o, "{\"openapi\":\"3.0.3\",\"info\":{"), "c17-openapi-and-info-first")
	vAssert(strings.Contains(o, "\"paths\":{"), "c17-no-paths-key")
	{
		var ops []vOp
		_ = c.catalog.Interactions.Each(func(id catalog.InteractionID, v catalog.Interaction) error {
			if hi, ok := v.(*catalog.HTTPInteraction); ok {
				op := vOp{path: string(hi.PathVal), method: hi.HttpMethod.String()}
				for _, r := range hi.Responses {
					op.codes = append(op.codes, r.Code)
				}
				ops = append(ops, op)
			}
			return nil
		})
		var types []string
		_ = c.catalog.UserTypes.Each(func(k string, _ *catalog.UserType) error { types = append(types, k[1:]); return nil })
		bad := vOpenAPIShape(o, ops, types)
		vAssert(bad == "", "c17-openapi-shape: "+bad)
	}
	const refKey = "\"$ref\":\"#/components/schemas/"
	rest := o
	for {
		i := strings.Index(rest, refKey)
		if i < 0 {
			break
		}
		rest = rest[i+len(refKey):]
		e := strings.IndexByte(rest, '"')
		name := rest[:e]
		_, ok := c.catalog.UserTypes.Get("@" + name)
		vAssert(ok, "c17-ref-does-not-resolve-to-a-component")
		ci := strings.Index(o, "\"components\":{\"schemas\":{")
		vAssert(ci >= 0 && strings.Contains(o[ci:], "\""+name+"\":"), "c17-ref-target-missing-in-components")
	}
}
