package core

import (
	"strings"

	"github.com/jsightapi/jsight-api-core/catalog"
)

// vEmit: the data ToJson / ToJsonIndent hand to encoding/json for the whole catalog:
// the digest of every entity plus, for every schema, content, rules, used names and the
// EXAMPLE, each obtained the way the MarshalJSON methods obtain it.
func vEmit(c *JApiCore) []string {
	out := vDigest(c)
	cat := c.catalog
	add := func(parts ...string) { out = append(out, strings.Join(parts, " ")) }
	_ = cat.UserTypes.Each(func(k string, v *catalog.UserType) error {
		add("emit type", k, catalog.VSchemaEmit(v.Schema))
		return nil
	})
	_ = cat.UserEnums.Each(func(k string, v *catalog.UserRule) error {
		add("emit enum", k, catalog.VRuleDigest(v.Value))
		return nil
	})
	_ = cat.Interactions.Each(func(k catalog.InteractionID, v catalog.Interaction) error {
		switch in := v.(type) {
		case *catalog.HTTPInteraction:
			if in.PathVariables != nil {
				add("emit pathvars", k.String(), catalog.VSchemaEmit(in.PathVariables.Schema))
			}
			if in.Query != nil {
				add("emit query", k.String(), catalog.VSchemaEmit(in.Query.Schema))
			}
			if in.Request != nil {
				if in.Request.HTTPRequestHeaders != nil {
					add("emit request-headers", k.String(), catalog.VSchemaEmit(in.Request.HTTPRequestHeaders.Schema))
				}
				if in.Request.HTTPRequestBody != nil {
					add("emit request-body", k.String(), catalog.VSchemaEmit(in.Request.HTTPRequestBody.Schema))
				}
			}
			for _, r := range in.Responses {
				if r.Headers != nil {
					add("emit response-headers", k.String(), r.Code, catalog.VSchemaEmit(r.Headers.Schema))
				}
				if r.Body != nil {
					add("emit response-body", k.String(), r.Code, catalog.VSchemaEmit(r.Body.Schema))
				}
			}
		case *catalog.JsonRpcInteraction:
			if in.Params != nil {
				add("emit params", k.String(), catalog.VSchemaEmit(in.Params.Schema))
			}
			if in.Result != nil {
				add("emit result", k.String(), catalog.VSchemaEmit(in.Result.Schema))
			}
		}
		return nil
	})
	return out
}

var vC16Docs = []string{
	// regex user type, a jsight type that refers to it (its example draws from the regex type), regex bodies
	"JSIGHT 0.3\nINFO\n  Title \"T\"\nTYPE @r regex\n/[a-z]{3,8}\\d+/\nTYPE @o\n{\n  \"x\": @r,\n  \"y\": [@r]\n}\nGET /x\n  200 regex\n  /(foo|bar|baz){2}x*/\nPOST /y\n  Request @o\n  200 @o\n",
	// allOf inheritance, enums, path variables, query
	"JSIGHT 0.3\nENUM @e\n[1, 2]\nTYPE @base\n{\n  \"id\": 1 // {enum: @e}\n}\nTYPE @kid\n{ // {allOf: \"@base\"}\n  \"n\": \"s\"\n}\nGET /k/{id}\n  Query\n  {\"q\": 1}\n  200 @kid\n",
	// JSON-RPC
	"JSIGHT 0.3\nTYPE @r regex\n/z+/\nURL /rpc\n  Protocol json-rpc-2.0\n  Method m\n    Params\n    {\"p\": @r}\n    Result\n    [@r]\n",
}

// HRepeat (C16, emitter level): a catalog is serialised several times, with a symbolic
// sequence of other calls (serialise / Title, up to three) in between: what is handed to
// encoding/json is every time what its FIRST serialisation handed over.
func HRepeat() {
	doc := vC16Docs[vInt("doc", 0, len(vC16Docs)-1)]
	c, je := vBuildText(doc)
	vAssert(je == nil, "c16-fixture-rejected")
	title := c.catalog.Info
	// every serialisation of THIS catalog is compared with its first one (two builds of one
	// project may differ in their generated examples: C06, F-C06-regex-example-map-order)
	var ref []string
	check := func() {
		got := vEmit(c)
		if ref == nil {
			ref = got
			return
		}
		for i := range ref {
			if i < len(got) && got[i] != ref[i] {
				vObserve("diff", ref[i], got[i])
			}
		}
		vAssert(len(got) == len(ref), "c16-serialisation-depends-on-earlier-calls-entity-count")
		for i := range ref {
			vAssert(got[i] == ref[i], "c16-serialisation-depends-on-earlier-calls")
		}
	}
	for i := 0; i < 3; i++ {
		switch vInt("op"+string(rune('0'+i)), 0, 2) {
		case 1:
			check() // ToJson / ToJsonIndent
		case 2:
			if title != nil {
				_ = title.Title // Title()
			}
		}
	}
	check()
	check()
	vReach("repeatable")
	vObserve("ok", len(ref))
}

func init() { vRegister("HRepeat", HRepeat) }

// HEmitHole (C04, emitter level): whenever a document of the hole family (a representative
// document with k symbolic bytes substituted at a cut) is ACCEPTED, every step that ToJson
// performs before it calls encoding/json succeeds: the emitter-side compilation of every
// schema (content, allOf inheritance, used names), its example, the pseudo-schema
// notations; and every content node is typed consistently (containers carry children and
// no scalar value, the others a scalar value and no children).
func HEmitHole() {
	doc := vHoleDocs[vParam("doc", 0)]
	cut, k := vParam("cut", 0), vParam("k", 2)
	if cut > len(doc) {
		cut = len(doc)
	}
	data := append([]byte(doc[:cut]), vBytes("d", k)...)
	if cut+k < len(doc) {
		data = append(data, doc[cut+k:]...)
	}
	c, je := vBuildProject(string(data), map[string]string{"inc.jst": "PATCH /dogs\n  200 any\nDELETE /dogs\n  200 any\n"})
	if je != nil {
		vReach("rejected")
		vObserve("rejected")
		return
	}
	for _, l := range vEmit(c) {
		vAssert(!strings.Contains(l, "error:"), "c04-serialisation-step-fails-for-an-accepted-document")
		vAssert(!strings.Contains(l, "ILL-TYPED"), "c04-content-node-typed-inconsistently")
	}
	vReach("emitted")
	vObserve("ok")
}

func init() { vRegister("HEmitHole", HEmitHole) }
