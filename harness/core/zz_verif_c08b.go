package core

import (
	"bytes"

	"github.com/jsightapi/jsight-schema-core/fs"

	"github.com/jsightapi/jsight-api-core/scanner"
)

type vLex struct {
	t    scanner.LexemeType
	b, e int
}

func vScanDoc(doc string) []vLex {
	f := fs.NewFile("/vfs/skeleton.jst", []byte(doc))
	s := scanner.NewJApiScanner(f)
	var out []vLex
	for i := 0; i < 10000; i++ {
		l, je := s.Next()
		if je != nil || l == nil {
			break
		}
		out = append(out, vLex{l.Type(), int(l.Begin()), int(l.End())})
	}
	return out
}

func vIsAlnum(c byte) bool {
	return c >= 'a' && c <= 'z' || c >= 'A' && c <= 'Z' || c >= '0' && c <= '9'
}

// HLayoutQuote (C08): one bare parameter of the skeleton (symbolic choice), its last
// byte replaced by a symbolic letter/digit; written bare vs. written in quotes.
func HLayoutQuote() {
	doc := vLayoutDocs[vParam("doc", 0)]
	var params []vLex
	for _, l := range vScanDoc(doc) {
		if l.t == scanner.Parameter && doc[l.b] != '"' && vIsAlnum(doc[l.e]) {
			params = append(params, l)
		}
	}
	p := params[vInt("param", 0, len(params)-1)]
	c := vByte("c")
	vAssume(vIsAlnum(c))
	bare := doc[:p.e] + string([]byte{c}) + doc[p.e+1:]
	quoted := doc[:p.b] + "\"" + doc[p.b:p.e] + string([]byte{c}) + "\"" + doc[p.e+1:]
	cA, jeA := vBuildProject(bare, vLayoutFiles)
	cB, jeB := vBuildProject(quoted, vLayoutFiles)
	vAssert((jeA == nil) == (jeB == nil), "c08-quoting-changes-accept-reject")
	if jeA != nil {
		vAssert(vMsgClass(jeA) == vMsgClass(jeB), "c08-quoting-changes-error-class")
		vReach("both-rejected")
		vObserve("rejected", p.b)
		return
	}
	vSameDigest(vDigestDeep(cA), vDigestDeep(cB), "c08-quoting-changes-catalog")
	vReach("same-catalog")
	vObserve("same", p.b)
}

// HLayoutAnnotation (C08): one "// text" annotation of the skeleton (symbolic
// choice), last byte symbolic, vs. the same text written as "/* text */".
func HLayoutAnnotation() {
	doc := vLayoutDocs[vParam("doc", 0)]
	var anns []vLex
	for _, l := range vScanDoc(doc) {
		if l.t == scanner.Annotation && l.b >= 2 && doc[l.b-2:l.b] == "//" && l.e >= l.b {
			anns = append(anns, l)
		}
	}
	if len(anns) == 0 {
		vReach("no-annotation")
		return
	}
	a := anns[vInt("ann", 0, len(anns)-1)]
	c := vByte("c")
	vAssume(c != '\n' && c != '\r' && c != '#' && c != 0 && c != '/' && c != '*')
	line := doc[:a.e] + string([]byte{c}) + doc[a.e+1:]
	block := doc[:a.b-2] + "/*" + doc[a.b:a.e] + string([]byte{c}) + " */" + doc[a.e+1:]
	cA, jeA := vBuildProject(line, vLayoutFiles)
	cB, jeB := vBuildProject(block, vLayoutFiles)
	vAssert((jeA == nil) == (jeB == nil), "c08-annotation-style-changes-accept-reject")
	if jeA != nil {
		vReach("both-rejected")
		vObserve("rejected", a.b)
		return
	}
	vSameDigest(vDigestDeep(cA), vDigestDeep(cB), "c08-annotation-style-changes-catalog")
	vReach("same-catalog")
	vObserve("same", a.b)
}

// HDescriptionUnit (C08): description() on m lines of w symbolic bytes: the result
// does not depend on the line-ending convention, on a uniform indentation, nor on
// wrapping the text in "(" ... ")".
func HDescriptionUnit() {
	m, w := vParam("m", 2), vParam("w", 2)
	lines := make([][]byte, m)
	for i := range lines {
		lines[i] = vBytes("l"+string(rune('0'+i)), w)
		for _, c := range lines[i] {
			// parentheses are the wrapping syntax itself: a text containing them is a different document
			vAssume(c != '\n' && c != '\r' && c != '(' && c != ')')
		}
	}
	ind := vByte("ind")
	vAssume(ind == ' ' || ind == '\t')
	join := func(nl string, indent []byte, wrap bool) []byte {
		var b []byte
		if wrap {
			b = append(b, indent...)
			b = append(b, '(')
			b = append(b, nl...)
		}
		for i, l := range lines {
			b = append(b, indent...)
			b = append(b, l...)
			if i < len(lines)-1 || wrap {
				b = append(b, nl...)
			}
		}
		if wrap {
			b = append(b, indent...)
			b = append(b, ')')
		}
		return b
	}
	base, errBase := description(join("\n", nil, false))
	vAssert(errBase == nil, "c08-description-plain-text-rejected")
	check := func(v []byte, id string) {
		got, err := description(v)
		vAssert(err == nil, "c08-description-"+id+"-rejected")
		vAssert(bytes.Equal(got, base), "c08-description-"+id+"-changes-text")
	}
	check(join("\r\n", nil, false), "crlf")
	check(join("\r", nil, false), "cr")
	check(join("\n", []byte{ind}, false), "indent")
	check(join("\n", []byte{ind, ind}, true), "parentheses")
	check(join("\r\n", []byte{ind}, true), "parentheses-crlf")
	vReach("description-stable")
	vObserve("ok", string(base))
}

func init() {
	vRegister("HLayoutQuote", HLayoutQuote)
	vRegister("HLayoutAnnotation", HLayoutAnnotation)
	vRegister("HDescriptionUnit", HDescriptionUnit)
}
