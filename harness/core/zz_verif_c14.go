package core

import (
	"strings"

	"github.com/jsightapi/jsight-schema-core/fs"

	"github.com/jsightapi/jsight-api-core/jerr"
)

// vSpecSafeIncludeName: the reference predicate of C14 — a name that may be
// handed to the file system: not empty, not absolute, no backslash, no "." or
// ".." path segment.
func vSpecSafeIncludeName(s string) bool {
	if len(s) == 0 || s[0] == '/' {
		return false
	}
	segStart := 0
	for i := 0; i <= len(s); i++ {
		if i < len(s) && s[i] == '\\' {
			return false
		}
		if i == len(s) || s[i] == '/' {
			seg := s[segStart:i]
			if seg == "." || seg == ".." {
				return false
			}
			segStart = i + 1
		}
	}
	return true
}

func vIsRefusal(msg string) bool {
	return strings.Contains(msg, jerr.IncludeRootErr) || strings.Contains(msg, jerr.IncludeUpErr) ||
		strings.Contains(msg, jerr.IncludeSeparatorErr) || strings.Contains(msg, "empty")
}

// HIncludeNameUnit (C14): validateIncludeFileName over every byte string of length n.
func HIncludeNameUnit() {
	n := vParam("n", 3)
	s := string(vBytes("s", n))
	err := validateIncludeFileName(s)
	if !vSpecSafeIncludeName(s) {
		vAssert(err != nil, "c14-unsafe-name-accepted")
		vReach("refused")
	} else if err == nil {
		vReach("accepted")
	}
}

// HIncludeName (C14): the whole path INCLUDE "<s>" -> scanner -> processInclude ->
// file system, in a virtual file system with decoys outside the project directory.
func HIncludeName() {
	n := vParam("n", 3)
	s := vBytes("s", n)
	for _, c := range s {
		// expressible inside a quoted parameter without escapes
		vAssume(c != '"' && c != '\\' && c != '\n' && c != '\r' && c != 0)
	}
	vDir(vPath("/vfs/p"))
	vDir(vPath("/vfs/p/sub"))
	vFile(vPath("/vfs/p/a"), []byte("GET /a\n 200 any\n"))
	vFile(vPath("/vfs/p/sub/b"), []byte("GET /b\n 200 any\n"))
	vFile(vPath("/vfs/secret"), []byte("GET /secret\n 200 any\n")) // decoy outside the project
	vFile(vPath("/vfs/p.jst"), []byte("GET /secret2\n 200 any\n"))  // decoy: sibling of the project dir
	root := vPath("/vfs/p/root.jst")
	data := append(append([]byte("INCLUDE \""), s...), '"')
	f := fs.NewFile(root, data)
	c := NewJApiCore(f)
	vFSMark("begin")
	je := c.scanProject()
	vFSMark("end")
	safe := vSpecSafeIncludeName(string(s))
	// What the parameter "says" is s only when the quoted text unquotes to s, which
	// needs bytes >= 0x20 (a JSON-style unquote keeps the quotes otherwise); the
	// file-system log assertions below hold for every byte value.
	printable := true
	for _, c := range s {
		if c < 0x20 {
			printable = false
		}
	}
	if !safe && printable {
		vAssert(je != nil, "c14-unsafe-name-included")
		vAssert(vIsRefusal(je.Msg), "c14-unsafe-name-reached-file-system")
		vReach("refused")
	}
	if vSymbolic() {
		// every path handed to the file-system stubs lies lexically inside /vfs/p/
		log := vFSLog()
		if !safe && printable {
			vAssert(len(log) == 0, "c14-file-system-consulted-for-unsafe-name")
		}
		for _, p := range log {
			vAssert(strings.HasPrefix(p, "/vfs/p/"), "c14-path-outside-project-dir")
			vAssert(vSpecSafeIncludeName(p[len("/vfs/p/"):]), "c14-path-with-dot-segment")
		}
	}
	if je == nil {
		vReach("included")
		vObserve("ok", len(c.directives))
	} else {
		vObserve("err", int(je.Index), vIsRefusal(je.Msg))
	}
}

// HIncludeGraph (C14): include graphs over files a, b, c (+ directory d, missing z).
// root.jst holds two INCLUDEs, every other file holds one INCLUDE or a plain
// directive; all targets are symbolic.
func HIncludeGraph() {
	names := []byte{'a', 'b', 'c'}
	target := map[byte]byte{}
	pick := func(id string) byte {
		t := vByte(id)
		vAssume(t == 'a' || t == 'b' || t == 'c' || t == 'd' || t == 'z' || t == '-')
		return t
	}
	r0, r1 := pick("r0"), pick("r1")
	vAssume(r0 != '-' && r1 != '-')
	vDir(vPath("/vfs/p"))
	vDir(vPath("/vfs/p/d"))
	nfiles := vParam("files", 3)
	for i, nm := range names {
		if i >= nfiles {
			break
		}
		t := pick("t" + string(nm))
		target[nm] = t
		var content []byte
		if t == '-' {
			content = []byte("TAG @" + string(nm) + "\n")
		} else {
			content = []byte{'I', 'N', 'C', 'L', 'U', 'D', 'E', ' ', t, '\n'}
		}
		vFile(vPath("/vfs/p/"+string(nm)), content)
	}
	rootData := []byte{'I', 'N', 'C', 'L', 'U', 'D', 'E', ' ', r0, '\n', 'I', 'N', 'C', 'L', 'U', 'D', 'E', ' ', r1, '\n'}
	// the root path as the caller spelled it: clean or not (the spelling must not matter)
	rootName := []string{"/vfs/p/root.jst", "/vfs/p/./root.jst", "/vfs/p/d/../root.jst", "/vfs/p//root.jst"}[vInt("rootSpelling", 0, 3)]
	f := fs.NewFile(vPath(rootName), rootData)
	c := NewJApiCore(f)
	je := c.scanProject()

	// reference: follow each chain from the root
	type verdict struct {
		class string // "", "recursion", "missing", "dir"
		file  string // file holding the offending INCLUDE
		index int
		tags  int
		cycle []byte // files on the detected cycle
	}
	var want verdict
	walk := func(first byte, rootIdx int) bool {
		onChain := map[byte]bool{}
		var chain []byte
		holder, holderIdx := "root.jst", rootIdx
		t := first
		for {
			exists := false
			for i, nm := range names {
				if i < nfiles && nm == t {
					exists = true
				}
			}
			switch {
			case t == 'd':
				want = verdict{class: "dir", file: holder, index: holderIdx}
				return false
			case !exists:
				want = verdict{class: "missing", file: holder, index: holderIdx}
				return false
			case onChain[t]:
				want = verdict{class: "recursion", file: holder, index: holderIdx}
				for k, x := range chain {
					if x == t {
						want.cycle = chain[k:]
					}
				}
				return false
			}
			onChain[t] = true
			chain = append(chain, t)
			if target[t] == '-' {
				want.tags++
				return true
			}
			holder, holderIdx = string(t), 0
			t = target[t]
		}
	}
	if walk(r0, 0) {
		walk(r1, 10)
	}
	if want.class == "" {
		vAssert(je == nil, "c14-acyclic-include-graph-rejected")
		vAssert(len(c.directives) == want.tags, "c14-include-graph-directive-count")
		vReach("graph-accepted")
		vObserve("ok", len(c.directives))
		return
	}
	vAssert(je != nil, "c14-bad-include-graph-accepted")
	switch want.class {
	case "recursion":
		// located at an INCLUDE of the cycle (any file of the cycle; every non-root file has its INCLUDE at 0)
		vAssert(strings.Contains(je.Msg, jerr.RecursionIsProhibited), "c14-cycle-not-reported-as-recursion")
		on := false
		for _, x := range want.cycle {
			if strings.HasSuffix(je.File.Name(), "/"+string(x)) {
				on = true
			}
		}
		vAssert(on, "c14-recursion-error-outside-the-cycle")
		vAssert(int(je.Index) == 0, "c14-recursion-error-not-at-an-include")
		vReach("graph-cycle")
		vObserve("err", want.class)
		return
	case "missing":
		vAssert(strings.Contains(je.Msg, "does not exist"), "c14-missing-file-message")
		vReach("graph-missing")
	case "dir":
		vAssert(strings.Contains(je.Msg, "is a directory"), "c14-directory-message")
		vReach("graph-dir")
	}
	vAssert(strings.HasSuffix(je.File.Name(), "/"+want.file), "c14-error-not-in-including-file")
	vAssert(int(je.Index) == want.index, "c14-error-not-at-the-include")
	vObserve("err", want.class, want.file, want.index)
}

func init() {
	vRegister("HIncludeGraph", HIncludeGraph)
	vRegister("HIncludeNameUnit", HIncludeNameUnit)
	vRegister("HIncludeName", HIncludeName)
}

// HIncludeDirs (C14): resolution is relative to the directory of the INCLUDING file.
// root includes a/x and b/y (order symbolic); both include "t"; a/t always exists,
// b/t exists or not (symbolic); c/d/z includes "../../a/t" style names are refused.
func HIncludeDirs() {
	swap := vBool("swap")
	eb := vBool("eb")
	vDir(vPath("/vfs/p"))
	vFile(vPath("/vfs/p/a/x"), []byte("INCLUDE t\n"))
	vFile(vPath("/vfs/p/b/y"), []byte("INCLUDE t\n"))
	vFile(vPath("/vfs/p/a/t"), []byte("TAG @ta\n"))
	vFile(vPath("/vfs/p/t"), []byte("TAG @root\n")) // decoy: same name next to the root file
	if eb {
		vFile(vPath("/vfs/p/b/t"), []byte("TAG @tb\n"))
	}
	root := "INCLUDE a/x\nINCLUDE b/y\n"
	if swap {
		root = "INCLUDE b/y\nINCLUDE a/x\n"
	}
	c := NewJApiCore(fs.NewFile(vPath("/vfs/p/root.jst"), []byte(root)))
	je := c.scanProject()
	if !eb {
		vAssert(je != nil, "c14-missing-file-in-subdirectory-not-reported")
		vAssert(strings.Contains(je.Msg, "does not exist"), "c14-missing-file-message")
		vAssert(strings.HasSuffix(je.File.Name(), "/b/y"), "c14-error-not-in-including-file")
		vAssert(int(je.Index) == 0, "c14-error-not-at-the-include")
		vReach("dirs-missing")
		vObserve("err")
		return
	}
	vAssert(je == nil, "c14-includes-in-subdirectories-rejected")
	vAssert(len(c.directives) == 2, "c14-subdirectory-include-count")
	first, second := "@ta", "@tb"
	if swap {
		first, second = "@tb", "@ta"
	}
	vAssert(c.directives[0].NamedParameter("TagName") == first && c.directives[1].NamedParameter("TagName") == second, "c14-include-resolved-against-wrong-directory")
	vReach("dirs-ok")
	vObserve("ok")
}

func init() { vRegister("HIncludeDirs", HIncludeDirs) }

// HIncludeCycle (C14): cycles through ANY file of the project, the root file included,
// with directives written before the INCLUDE. Files r (the root, starting with JSIGHT),
// a, b; each holds an optional prelude and "INCLUDE <target>" with a symbolic target in
// {r, a, b} or is a leaf (a, b only). Following the chain from the root either ends in
// a leaf (accepted) or returns to a file already on the chain: a recursion error.
// open=1: the prelude of file a opens an explicit context that is still open at its INCLUDE.
func HIncludeCycle() {
	open := vParam("open", 0)
	pickT := func(id string, leaf bool) byte {
		t := vByte(id)
		vAssume(t == 'r' || t == 'a' || t == 'b' || (leaf && t == '-'))
		return t
	}
	target := map[byte]byte{'r': pickT("tr", false), 'a': pickT("ta", true), 'b': pickT("tb", true)}
	prelude := map[byte]string{}
	for _, f := range []byte{'r', 'a', 'b'} {
		if vBool("p" + string(f)) {
			prelude[f] = "TAG @" + string(f) + "\n"
		}
	}
	if open == 1 {
		prelude['a'] = "GET /a\n(\n"
	}
	vDir(vPath("/vfs/p"))
	content := func(f byte) []byte {
		var out []byte
		if f == 'r' {
			out = append(out, "JSIGHT 0.3\n"...)
		}
		out = append(out, prelude[f]...)
		if target[f] == '-' {
			out = append(out, "TAG @leaf"...)
			out = append(out, f, '\n')
		} else {
			out = append(out, "INCLUDE "...)
			out = append(out, target[f], '\n')
		}
		if open == 1 && f == 'a' {
			out = append(out, ")\n"...)
		}
		return out
	}
	vFile(vPath("/vfs/p/a"), content('a'))
	vFile(vPath("/vfs/p/b"), content('b'))
	vFile(vPath("/vfs/p/r"), content('r')) // the root file is a file of the project like any other
	c := NewJApiCore(fs.NewFile(vPath("/vfs/p/r"), content('r')))
	je := c.scanProject()

	onChain := map[byte]bool{'r': true}
	cyclic := false
	for f := target['r']; ; f = target[f] {
		if f == '-' {
			break
		}
		if onChain[f] {
			cyclic = true
			break
		}
		onChain[f] = true
	}
	if !cyclic {
		if open == 0 {
			vAssert(je == nil, "c14-acyclic-include-chain-rejected")
		}
		vReach("chain-accepted")
		vObserve("ok")
		return
	}
	vAssert(je != nil, "c14-include-cycle-accepted")
	vAssert(strings.Contains(je.Msg, jerr.RecursionIsProhibited), "c14-cycle-not-reported-as-recursion")
	on := false
	for f := range onChain {
		if strings.HasSuffix(je.File.Name(), "/"+string(f)) {
			on = true
		}
	}
	vAssert(on, "c14-recursion-error-outside-the-cycle")
	vReach("chain-cycle")
	vObserve("cycle", je.File.Name(), int(je.Index))
}

func init() { vRegister("HIncludeCycle", HIncludeCycle) }
