package core

import (
	"strings"
)

// HNoteLayout (C08): notes that span lines — a /* */ note of an ENUM value, of a schema
// property, of an item of an inline enum rule — under the rewrites the language calls
// insignificant: line-end convention (LF / CRLF / CR) and uniform re-indentation of the whole
// document by 1..2 symbolic blanks. The catalog (deep digest: it holds every note) is unchanged.
func HNoteLayout() {
	docs := []string{
		// 0: ENUM values with multi-line notes
		"JSIGHT 0.3\nENUM @e\n[\n  /* my\n     pets */\n  \"CAT\", /* a\n           cat */\n  \"DOG\" // dog\n]\nGET /a\n  200\n  {\n    \"k\": \"CAT\" // {enum: @e}\n  }\n",
		// 1: schema properties with multi-line notes (type body and response body)
		"JSIGHT 0.3\nTYPE @t\n{\n  \"id\": 1, /* the\n              id */\n  \"n\": \"s\" // name\n}\nGET /a\n  200\n  {\n    \"x\": @t /* a\n              t */\n  }\n",
	}
	di := vInt("doc", 0, len(docs)-1)
	src := ""
	for k := range docs {
		if di == k {
			src = docs[k]
			break
		}
	}
	dst := src
	switch vInt("rewrite", 0, 2) {
	case 0:
		dst = strings.Replace(src, "\n", "\r\n", -1)
	case 1:
		dst = strings.Replace(src, "\n", "\r", -1)
	default:
		ind := " "
		if vBool("two") {
			ind = "  "
		}
		if vBool("tab") {
			ind = "\t"
		}
		lines := strings.Split(src, "\n")
		for i := range lines {
			if lines[i] != "" {
				lines[i] = ind + lines[i]
			}
		}
		dst = strings.Join(lines, "\n")
		vReach("indented")
	}
	cA, jeA := vBuildText(src)
	cB, jeB := vBuildText(dst)
	vAssert(jeA == nil, "c08-fixture-rejected")
	vAssert(jeB == nil, "c08-rewritten-document-rejected")
	dA, dB := vDigestDeep(cA), vDigestDeep(cB)
	vAssert(len(dA) == len(dB), "c08-notes-depend-on-the-layout")
	for k := range dA {
		vAssert(dA[k] == dB[k], "c08-notes-depend-on-the-layout")
	}
	vReach("notes-compared")
	vObserve("same", di)
}

func init() { vRegister("HNoteLayout", HNoteLayout) }
