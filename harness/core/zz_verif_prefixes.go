package core

// Witness prefixes: at least one per family of scanner state (DESIGN.md B6).
var vPrefixes = []string{
	"",                       // 0
	"\n",                     // 1
	"#",                      // 2
	"##",                     // 3
	"###",                    // 4
	"### a #",                // 5
	"### a ##",               // 6
	"GET",                    // 7
	"GET ",                   // 8
	"GET /a",                 // 9
	"GET \"a",                // 10
	"GET \"a\\",              // 11
	"GET \"a\"",              // 12
	"GET /a /",               // 13
	"GET /a //",              // 14
	"GET /a /*",              // 15
	"GET /a // x #",          // 16
	"GET /a #",               // 17
	"GET /a\n",               // 18
	"200",                    // 19
	"200 any\n",              // 20
	"200\n",                  // 21
	"200 regex\n",            // 22
	"200 regex\n/",           // 23
	"200 regex\n/a\\",        // 24
	"200 regex\n/a/",         // 25
	"Body\n",                 // 26
	"TYPE @a\n",              // 27
	"TYPE @a\n{}",            // 28
	"TYPE @a\n{} ",           // 29
	"Request\n",              // 30
	"Query\n",                // 31
	"Headers\n",              // 32
	"Path\n",                 // 33
	"ENUM @e\n",              // 34
	"ENUM @e\n[1]",           // 35
	"ENUM @e\n[1] ",          // 36
	"Description\n",          // 37
	"Description\n a",        // 38
	"Description\n a\n",      // 39
	"Description\n(",         // 40
	"Description\n(\n",       // 41
	"URL /a\n(",              // 42
	"URL /a\n(\n)",           // 43
	"INCLUDE ",               // 44
	"INCLUDE a",              // 45
	"INCLUDE a\n",            // 46
	"JSIGHT 0.3\n",           // 47
	"URL /a\nGET\n 200 any\n", // 48
	"MACRO @m\n(\n GET /a\n)\nPASTE @m", // 49
	"TAG @t\nGET /a\n Tags @t",          // 50
	"SERVER @s\n BaseUrl \"h\"\n",       // 51
	"URL /a\n Protocol json-rpc-2.0\n Method m\n", // 52
	"GET /a /* x *",          // 53
	"INCLUDE a ",             // 54
	"OperationId",            // 55
	"JSIGHT 0.3\nGET /a\nDescription\n",                 // 56 Description directly followed by ...
	"JSIGHT 0.3\nGET /a\nDescription\n2",                // 57 ... the start of a directive
	"JSIGHT 0.3\nTYPE @a\n{}\nTYPE @a regex\n/a",         // 58 same type name, two notations
	"JSIGHT 0.3\nENUM @e\n[\"a\" /",                      // 59 enum body ending inside a comment
	"JSIGHT 0.3\nGET /a\n  200 any\n  Description\n t\n", // 60
	"JSIGHT 0.3\nURL /a\n  GET\n    200 any\n  GET\n",   // 61 same method twice
	"JSIGHT 0.3\nGET /a/{id}/{id",                        // 62 duplicated path parameter
	"JSIGHT 0.3\nMACRO @m\n(\n  PASTE @m\n)\nPASTE @",    // 63
	"JSIGHT 0.3\nTYPE @r regex\n/a/\nTYPE @y any\nTYPE @j\n{}\nGET /p/{id}\n  200 any\n  Path\n  @",                 // 64 Path body = a type reference
	"JSIGHT 0.3\nTYPE @r regex\n/a/\nTYPE @y any\nGET /p/{id}\n  200 any\n  Path\n  {\"id\": @",                       // 65 Path property = a type reference
	"JSIGHT 0.3\nTYPE @r regex\n/a/\nTYPE @y any\nGET /h\n  200 any\n    Headers\n    @",                              // 66 Headers body = a type reference
	"JSIGHT 0.3\nTYPE @r regex\n/a/\nTYPE @y any\nGET /q\n  200 any\n  Query\n  @",                                     // 67 Query body = a type reference
	"JSIGHT 0.3\nTYPE @r regex\n/a/\nTYPE @y any\nTYPE @t\n{ // {allOf: \"@",                                        // 68 allOf naming a non-object type
	"JSIGHT 0.3\nTYPE @r regex\n/a/\nTYPE @y any\nPOST /b\n  200 any\n  Request @",                                    // 69 Request naming a type
	"JSIGHT 0.3\nTYPE @r regex\n/a/\nTYPE @y any\nURL /j\n  Protocol json-rpc-2.0\n  Method m\n    Params\n    @",    // 70 Params body = a type reference
	"JSIGHT 0.3\nTAG @t\nTAG @u\nGET /a\n  200 any\n  Tags @t @",                                                  // 71 a second (possibly repeated / unknown) tag
	"JSIGHT 0.3\nURL /j\n  Protocol json-rpc-2.0\n  TAG @t\n  Method m\n    Params\n    {}\n    Tags @",          // 72 Tags of a JSON-RPC method
	"JSIGHT 0.3\nSERVER @s\n  BaseUrl \"h\"\nSERVER @",                                                              // 73 a second server name
	"JSIGHT 0.3\nENUM @e\n[1]\nTYPE @a\n{\"b\": @b}\nTYPE @b\n",                                                    // 74 a type used before its definition, with an ENUM in the project
	"JSIGHT 0.3\nENUM @e\n[1]\nTYPE @a\n{\"b\": @b}\nTYPE @b\n{\"a\": @a, \"e\": 1 // {enum: @e}\n}\nTYPE @c\n",      // 75 a cycle of types and a third type
	"JSIGHT 0.3\nTYPE @a\n{\"b\": @b // {optional: true}\n}\nTYPE @b\n{\"a\": @a, // {optional: true}\n\"x\": 5 // {min: ", // 76 a fault inside a cycle of types
}
