package core

import "strings"

// HRefMatrix (C01, C04, C05): every place where a schema can name a user type x every
// notation the type can have. Place and notation are symbolic choices; whatever the
// verdict, the build terminates without a panic or runaway recursion (C01); if the
// document is accepted, every step of the emitter succeeds and the nodes are well typed
// (C04) and the catalog is closed (C05).
func HRefMatrix() {
	notations := []string{
		"TYPE @t\n{\"k\": 1}\n",                // jsight object
		"TYPE @t\n\"s\"\n",                     // jsight scalar
		"TYPE @t regex\n/ab/\n",                // regex
		"TYPE @t any\n",                        // any
		"TYPE @t empty\n",                      // empty
		"TYPE @t\n@t // {nullable: true}\n",    // refers to itself
		"TYPE @t\n[1]\n",                       // array
		"TYPE @t\n@u // {nullable: true}\nTYPE @u\n@t // {nullable: true}\n", // a cycle of two
		"TYPE @t regex\n/\\x01/\n",             // regex whose example holds a control character
	}
	places := []string{
		"GET /x/{id}\n  Path\n  {\"id\": @t}\n  200 any\n",
		"GET /x/{id}\n  Path\n  @t\n  200 any\n",
		"POST /x\n  Request\n    Headers\n    @t\n    Body any\n  200 any\n",
		"GET /x\n  200\n    Headers\n    @t\n    Body any\n",
		"GET /x\n  Query\n  @t\n  200 any\n",
		"GET /x\n  Query\n  {\"q\": @t}\n  200 any\n",
		"POST /x\n  Request @t\n  200 any\n",
		"GET /x\n  200 @t\n",
		"GET /x\n  200 [@t]\n",
		"URL /r\n  Protocol json-rpc-2.0\n  Method m\n    Params\n    @t\n",
		"URL /r\n  Protocol json-rpc-2.0\n  Method m\n    Result\n    {\"r\": @t}\n",
		"TYPE @w\n{ // {allOf: \"@t\"}\n  \"z\": 1\n}\nGET /x\n  200 @w\n",
		"GET /x\n  200\n  {\n    \"o\": 1 // {or: [\"@t\", \"integer\"]}\n  }\n",
		"GET /x\n  200\n  {\n    \"o\": \"s\" // {type: \"@t\"}\n  }\n",
		"GET /x\n  200\n  {} // {additionalProperties: \"@t\"}\n",
		"GET /x\n  200\n  {\n    @t : 1\n  }\n",
		"GET /x/{id}\n  Path\n  {\n    \"id\": 1 // {or: [\"@t\", \"integer\"]}\n  }\n  200 any\n",
		"GET /x/{id}\n  Path\n  { // {allOf: \"@t\"}\n  }\n  200 any\n",
	}
	ni := vInt("notation", 0, len(notations)-1)
	pi := vInt("place", 0, len(places)-1)
	if vParam("emitOnly", 0) == 1 {
		// C04 looks at accepted documents only; the one combination whose build does not return
		// (known finding F-C01-key-shortcut-self-reference, decided under C01) is left out
		vAssume(!(pi == 15 && (ni == 5 || ni == 7)))
	}
	before := vBool("typeFirst")
	doc := "JSIGHT 0.3\n"
	if before {
		doc += notations[ni] + places[pi]
	} else {
		doc += places[pi] + notations[ni]
	}
	c, je := vBuildText(doc)
	if je != nil {
		vAssert(je.File != nil && int(je.Index) <= je.File.Content().Len(), "c01-error-location-outside-file")
		vReach("rejected")
		vObserve("rejected", ni, pi) // not the message: it may render a pointer
		return
	}
	for _, l := range vEmit(c) {
		vAssert(!strings.Contains(l, "error:"), "c04-serialisation-step-fails-for-an-accepted-document")
		vAssert(!strings.Contains(l, "ILL-TYPED"), "c04-content-node-typed-inconsistently")
	}
	vCheckClosure(c)
	vReach("accepted")
	vObserve("accepted", ni, pi)
}

func init() { vRegister("HRefMatrix", HRefMatrix) }
