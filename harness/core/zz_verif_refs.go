package core

import (
	"strings"

	"github.com/jsightapi/jsight-api-core/catalog"
	"github.com/jsightapi/jsight-api-core/catalog/ser/openapi"
)

// HRefMatrix (C01, C04, C05): every place where a schema can name a user type x every
// notation the type can have. Place and notation are symbolic choices; whatever the
// verdict, the build terminates without a panic or runaway recursion (C01); if the
// document is accepted, every step of the emitter succeeds and the nodes are well typed
// (C04) and the catalog is closed (C05).
func HRefMatrix() {
	notations := []string{
		"TYPE @t\n{\"k\": 1}\n",                // jsight object
		"TYPE @t\n\"s\"\n",                     // jsight scalar
		"TYPE @t regex\n/ab/\n",                // regex
		"TYPE @t any\n",                        // any
		"TYPE @t empty\n",                      // empty
		"TYPE @t\n@t // {nullable: true}\n",    // refers to itself
		"TYPE @t\n[1]\n",                       // array
		"TYPE @t\n@u // {nullable: true}\nTYPE @u\n@t // {nullable: true}\n", // a cycle of two
		"TYPE @t regex\n/\\x01/\n",             // regex whose example holds a control character
	}
	places := []string{
		"GET /x/{id}\n  Path\n  {\"id\": @t}\n  200 any\n",
		"GET /x/{id}\n  Path\n  @t\n  200 any\n",
		"POST /x\n  Request\n    Headers\n    @t\n    Body any\n  200 any\n",
		"GET /x\n  200\n    Headers\n    @t\n    Body any\n",
		"GET /x\n  Query\n  @t\n  200 any\n",
		"GET /x\n  Query\n  {\"q\": @t}\n  200 any\n",
		"POST /x\n  Request @t\n  200 any\n",
		"GET /x\n  200 @t\n",
		"GET /x\n  200 [@t]\n",
		"URL /r\n  Protocol json-rpc-2.0\n  Method m\n    Params\n    @t\n",
		"URL /r\n  Protocol json-rpc-2.0\n  Method m\n    Result\n    {\"r\": @t}\n",
		"TYPE @w\n{ // {allOf: \"@t\"}\n  \"z\": 1\n}\nGET /x\n  200 @w\n",
		"GET /x\n  200\n  {\n    \"o\": 1 // {or: [\"@t\", \"integer\"]}\n  }\n",
		"GET /x\n  200\n  {\n    \"o\": \"s\" // {type: \"@t\"}\n  }\n",
		"GET /x\n  200\n  {} // {additionalProperties: \"@t\"}\n",
		"GET /x\n  200\n  {\n    @t : 1\n  }\n",
		"GET /x/{id}\n  Path\n  {\n    \"id\": 1 // {or: [\"@t\", \"integer\"]}\n  }\n  200 any\n",
		"GET /x/{id}\n  Path\n  { // {allOf: \"@t\"}\n  }\n  200 any\n",
	}
	ni := vInt("notation", 0, len(notations)-1)
	pi := vInt("place", 0, len(places)-1)
	if vParam("emitOnly", 0) == 1 {
		// C04 looks at accepted documents only; the one combination whose build does not return
		// (known finding F-C01-key-shortcut-self-reference, decided under C01) is left out
		vAssume(!(pi == 15 && (ni == 5 || ni == 7)))
	}
	before := vBool("typeFirst")
	doc := "JSIGHT 0.3\n"
	if before {
		doc += notations[ni] + places[pi]
	} else {
		doc += places[pi] + notations[ni]
	}
	c, je := vBuildText(doc)
	if je != nil {
		vAssert(je.File != nil && int(je.Index) <= je.File.Content().Len(), "c01-error-location-outside-file")
		vReach("rejected")
		vObserve("rejected", ni, pi) // not the message: it may render a pointer
		return
	}
	for _, l := range vEmit(c) {
		vAssert(!strings.Contains(l, "error:"), "c04-serialisation-step-fails-for-an-accepted-document")
		vAssert(!strings.Contains(l, "ILL-TYPED"), "c04-content-node-typed-inconsistently")
	}
	vCheckClosure(c)
	if vParam("emitOnly", 0) == 1 {
		vCheckJSON(c)
	}
	if vParam("export", 0) == 1 {
		vExportNoPanic(c)
		vCheckOpenAPIJSON(c)
	}
	vReach("accepted")
	vObserve("accepted", ni, pi)
}

func init() { vRegister("HRefMatrix", HRefMatrix) }

// vExportNoPanic runs the OpenAPI export of an accepted catalog (everything ToOpenAPIJson does
// before encoding/json): an error value or a document, never a panic (C17).
func vExportNoPanic(c *JApiCore) {
	oa, err := openapi.NewOpenAPI(c.catalog)
	vAssert(err != nil || oa != nil, "c17-neither-error-nor-document")
	if err == nil {
		vAssert(oa.OpenAPI == "3.0.3" && oa.Info != nil && oa.Paths != nil, "c17-document-without-version-info-paths")
		// every HTTP interaction is paths[path][method]; every {parameter} of its path is a required path parameter
		_ = c.catalog.Interactions.Each(func(id catalog.InteractionID, v catalog.Interaction) error {
			hi, ok := v.(*catalog.HTTPInteraction)
			if !ok {
				return nil
			}
			path := string(hi.PathVal)
			pi := oa.Paths[path]
			vAssert(pi != nil, "c17-interaction-path-missing-in-paths")
			var op *openapi.Operation
			switch hi.HttpMethod {
			case catalog.GET:
				op = pi.Get
			case catalog.POST:
				op = pi.Post
			case catalog.PUT:
				op = pi.Put
			case catalog.PATCH:
				op = pi.Patch
			case catalog.DELETE:
				op = pi.Delete
			}
			vAssert(op != nil, "c17-interaction-method-missing-in-path-item")
			for _, name := range vPathParams(path) {
				found := false
				for _, p := range pi.Parameters {
					if p.Name == name && p.In == openapi.ParameterLocationPath && p.Required {
						found = true
					}
				}
				vAssert(found, "c17-path-parameter-not-declared")
			}
			return nil
		})
	}
}

// HEmitCases (C04, C17): bodies and rules that are checked late. A symbolic choice among
// regex bodies (valid and invalid patterns, in a response, a request, a Body directive, a
// user type), Path bodies whose rules disagree with their examples or name undefined
// types or enums, empty enums and types in empty notation: whatever the verdict of the
// build, an ACCEPTED document serialises (every emitter step succeeds, nodes well typed)
// and its OpenAPI export returns an error or a document without panicking.
func HEmitCases() {
	patterns := []string{"ab+", "[", "a(", "+", "*a", "a{2", "\\", "(?P<x>a)", "a|b", "", "[a-z]{2,}", "\\x01",
		"[^\\x00-\\x7F]+", "[^\\s\\S]x", "a|[^\\x00-\\x7F]"} // classes without a printable character: the example generator cannot serve them
	nDocs := 23
	di := vInt("doc", 0, nDocs-1)
	pat, pr := "", ""
	if di <= 4 || di == 15 {
		pat = patterns[vInt("pattern", 0, len(patterns)-1)]
	}
	pathRules := []string{
		"\"id\": \"abc\" // {type: \"integer\"}",
		"\"id\": 1 // {type: \"@undef\"}",
		"\"id\": 1 // {min: 5}",
		"\"id\": 1 // {enum: @undef}",
		"\"id\": 1 // {enum: @e}",
		"\"id\": \"x\" // {regex: \"[\"}",
		"\"id\": 1 // {or: [\"@undef\", \"integer\"]}",
		"\"id\": 12 // {const: true}",
	}
	if di == 5 {
		pr = pathRules[vInt("pathRule", 0, len(pathRules)-1)]
	}
	docs := []string{
		"GET /a\n  200 regex\n  /" + pat + "/\n",
		"POST /a\n  Request regex\n  /" + pat + "/\n  200 any\n",
		"GET /a\n  200\n    Body regex\n    /" + pat + "/\n",
		"POST /a\n  Request\n    Body regex\n    /" + pat + "/\n  200 any\n",
		"TYPE @r regex\n/" + pat + "/\nGET /a/{id}\n  Path\n  {\"id\": @r}\n  200 @r\n",
		"ENUM @e\n[1, 2]\nURL /a/{id}\n  Path\n  {\n    " + pr + "\n  }\n  GET\n    200 any\n",
		"ENUM @e\n[]\nGET /a\n  200\n  {\"k\": 1 // {enum: @e}\n  }\n",
		"TYPE @e empty\nTYPE @y any\nGET /a\n  200 any\nPOST /a\n  Request any\n  204 empty\n",
		"GET /a\n  200 empty\n  200 any\n",
		"POST /a\n  Request\n    Headers\n    {\"h\": 2}\n  200 any\n", // request headers without a body
		"TYPE @cat\n{ // a cat\n  \"n\": 1\n}\nGET /a\n  200 @cat // first\n  200\n    Body regex\n    /y+/\n  200 any\n  404 any\n", // same-code responses of three notations
		"TAG @unused // nobody names it\nSERVER @s1\n  BaseUrl \"https://a\"\nSERVER @s2\n  BaseUrl \"https://b\"\nPATCH /e/{pid}/f/{fid}\n  Request any\n  200 any\n", // an unused TAG, two servers, PATCH with its own parameters
		"GET /a\n  304\n    Headers\n    {\"ETag\": \"x\"}\n", // response headers without a body
		"TYPE @k\n\"abc\"\nTYPE @d\n{\n  @k: 1\n}\nGET /a\n  200\n  { // {allOf: \"@d\"}\n    \"@k\": 2\n  }\n", // inherits a key shortcut, has a literal key of the same text
		"TYPE @k\n\"abc\"\nTYPE @d\n{\n  \"@k\": 1\n}\nTYPE @c\n{ // {allOf: \"@d\"}\n  @k: 2\n}\nGET /a\n  200 @c\n", // the other way round, in a type
		"TYPE @r regex\n/" + pat + "/\nGET /a\n  200\n  {\"n\": @r}\nGET /b\n  200\n  [@r]\nPOST /c\n  Request @r\n  200 any\n", // a regex type referred to by jsight schemas
		"GET /a\n  200\n  // todo\n",                                                            // a body that holds nothing but a comment
		"URL /rpc\n  Protocol json-rpc-2.0\n  Method m\n    Params\n    /* later */\n    Result\n    // c\n", // the same for Params / Result
		"POST /a\n  Request\n    Body\n    // c\n  200\n    Body\n    // c\n",                       // and for Body directives
		"GET /a\n  200 any\nTYPE @t\n# todo\n",                                                  // a TYPE whose body is a comment, at the end of the file
		"GET /a\n  200 @t\nTYPE @t\n  // {min: 1}\n",                                             // the same, referred to
		"ENUM\n[1, 2]\nGET /a\n  200 any\n",                                                      // an ENUM without a name
		"ENUM # @e\n[1, 2]\nSERVER # @s\n  BaseUrl \"https://h\"\nGET /a\n  200 any\n",            // names lost to a comment
	}
	vAssert(len(docs) == nDocs, "bad-fixture-count")
	c, je := vBuildText("JSIGHT 0.3\n" + docs[di])
	if di <= 4 || di == 15 {
		// the verdict on a regex body / type is that of the pattern
		switch pat {
		case "ab+", "(?P<x>a)", "a|b", "[a-z]{2,}":
			vAssert(je == nil, "c04-valid-regex-rejected")
		case "[", "a(", "+", "*a":
			vAssert(je != nil, "c04-invalid-regex-accepted")
		}
	}
	if di == 9 {
		vAssert(je != nil, "c04-headers-without-a-body-accepted")
	}
	if di == 10 || di == 11 || di == 13 || di == 14 {
		vAssert(je == nil, "c04-valid-fixture-rejected")
	}
	if di == 12 {
		vAssert(je != nil, "c04-headers-without-a-body-accepted")
	}
	if je != nil {
		vAssert(je.File != nil && int(je.Index) <= je.File.Content().Len(), "c01-error-location-outside-file")
		vReach("rejected")
		vObserve("rejected", di)
		return
	}
	for _, l := range vEmit(c) {
		vAssert(!strings.Contains(l, "error:"), "c04-serialisation-step-fails-for-an-accepted-document")
		vAssert(!strings.Contains(l, "ILL-TYPED"), "c04-content-node-typed-inconsistently")
	}
	vCheckJSON(c)
	vCheckClosure(c)
	if vParam("export", 0) == 1 {
		vExportNoPanic(c)
		vCheckOpenAPIJSON(c)
	}
	vReach("accepted")
	vObserve("accepted", di)
}

func init() { vRegister("HEmitCases", HEmitCases) }
