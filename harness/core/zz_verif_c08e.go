package core

import "strings"

// HLayoutComment (C08): a comment with k arbitrary content bytes at a legal site of a
// skeleton document (site = symbolic choice among all frozen trivia sites) leaves the
// catalog unchanged. form 0: "#"+content as a line of its own / as trailing comment;
// form 1: "###"+content+"###" (content without "###", not ending in "#").
func HLayoutComment() {
	doc := strings.ReplaceAll(vLayoutDocs[vParam("doc", 0)], "\r\n", "\n")
	sites := vTriviaSites(doc)
	k := vParam("k", 4)
	form := vParam("form", 0)
	sel := vInt("site", 0, len(sites)-1)
	site := sites[0]
	for i := range sites {
		if sel == i {
			site = sites[i]
			break
		}
	}
	// sites inside a block comment of the skeleton take blanks, not comments
	for from := 0; ; {
		o := strings.Index(doc[from:], "###")
		if o < 0 {
			break
		}
		cl := strings.Index(doc[from+o+3:], "###")
		if cl < 0 {
			break
		}
		open, end := from+o, from+o+3+cl+3
		vAssume(!(site.pos > open && site.pos < end))
		from = end
	}
	// ... and so does the end of a line that already carries a comment (the insertion would be
	// comment content, not a comment)
	ls := strings.LastIndexByte(doc[:site.pos], '\n') + 1
	vAssume(!strings.Contains(doc[ls:site.pos], "#"))
	c := vBytes("c", k)
	var comment []byte
	if form == 0 {
		comment = append(comment, '#')
		for _, b := range c {
			vAssume(b != '\n' && b != '\r' && b != 0)
		}
		if k >= 2 {
			vAssume(!(c[0] == '#' && c[1] == '#'))
		}
		comment = append(comment, c...)
	} else {
		comment = append(comment, '#', '#', '#')
		for i, b := range c {
			vAssume(b != 0)
			if i+2 < k {
				vAssume(!(c[i] == '#' && c[i+1] == '#' && c[i+2] == '#'))
			}
		}
		if k > 0 {
			vAssume(c[k-1] != '#')
		}
		comment = append(comment, c...)
		comment = append(comment, '#', '#', '#')
	}
	var ins string
	if site.kind == 0 {
		ins = string(comment) + "\n"
	} else {
		ins = " " + string(comment)
		// a trailing comment directly before an existing one: "# a" + "# b" is one comment, fine;
		// before an existing "#" a block closer "###" would join it — keep a blank in between
		ins += " "
	}
	variant := doc[:site.pos] + ins + doc[site.pos:]
	cA, jeA := vBuildProject(doc, vLayoutFiles)
	cB, jeB := vBuildProject(variant, vLayoutFiles)
	vAssert((jeA == nil) == (jeB == nil), "c08-comment-changes-accept-reject")
	if jeA != nil {
		vAssert(vMsgClass(jeA) == vMsgClass(jeB), "c08-comment-changes-error-class")
		vReach("both-rejected")
		return
	}
	vSameDigest(vDigestDeep(cA), vDigestDeep(cB), "c08-comment-changes-catalog")
	vReach("comment-compared")
	vObserve("ok", site.pos, site.kind)
}

func init() { vRegister("HLayoutComment", HLayoutComment) }
