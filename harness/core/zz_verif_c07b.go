package core

import (
	"strings"
)

type vBodyKind struct {
	before string // text before the body, ending with a line end
	indent int    // indentation of the body lines
	after  string
	macro  bool // may be wrapped into a pasted MACRO body
}

var vC07BodyKinds = []vBodyKind{
	{"TYPE @x\n", 0, "", true},
	{"GET /q\n  Query\n", 2, "  200 any\n", true},
	{"GET /h\n  200 any\n    Headers\n", 4, "", true},
	{"GET /p/{a}\n  Path\n", 2, "  200 any\n", true},
	{"POST /r\n  Request\n", 2, "  200 any\n", true},
	{"GET /i\n  200\n", 2, "", true},
	{"URL /j\n  Protocol json-rpc-2.0\n  Method m\n    Params\n", 4, "", false},
	{"URL /k\n  Protocol json-rpc-2.0\n  Method m\n    Params\n    {}\n    Result\n", 4, "", false},
	{"POST /rb\n  Request\n    Body\n", 4, "  200 any\n", true},
	{"GET /ib\n  200\n    Body\n", 4, "", true},
}

// HBodyError (C07): an invalid byte inside a schema body — directive kind,
// placement (root / INCLUDEd file / pasted MACRO body), the faulty property and
// the byte are symbolic — must be reported in the file that holds the body, at
// the index of that byte, with the line/column/quote of that index.
func HBodyError() {
	k := vC07BodyKinds[vInt("kind", 0, len(vC07BodyKinds)-1)]
	place := vInt("place", 0, 2)
	mode := vParam("mode", 0)
	bad := byte('?')
	if mode == 0 {
		bad = vByte("bad")
		vAssume(bad == '?' || bad == '%' || bad == '&' || bad == '~')
	}
	which := vInt("which", 0, 1)
	props := []string{"\"a\": 1", "\"b\": 2"}
	needle := string([]byte{bad})
	if mode == 1 {
		// a well-formed body with a reference to a type that does not exist: reported
		// when the catalog is compiled, not by the scanner
		z := vByte("z")
		vAssume(z == 'y' || z == 'Z' || z == '7')
		needle = "@z" + string([]byte{z})
	}
	props[which] = props[which][:5] + needle
	body := "{\n  " + props[0] + ",\n  " + props[1] + "\n}\n"
	block := k.before + vIndent(body, k.indent) + k.after
	head := "JSIGHT 0.3\nTYPE @ok any\n"
	files := map[string]string{}
	var root, holder, holderText string
	switch place {
	case 0:
		root = head + block
		holder, holderText = "root.jst", root
	case 1:
		root = head + "\nINCLUDE sub/b.jst\n"
		files["sub/b.jst"] = "# a comment line\n" + block
		holder, holderText = "sub/b.jst", files["sub/b.jst"]
	default:
		vAssume(k.macro)
		root = head + "MACRO @mm\n(\n" + vIndent(block, 2) + ")\nPASTE @mm\n"
		holder, holderText = "root.jst", root
	}
	// line ends of the whole project: LF / CRLF / CR (index, line, column and quote are those of
	// the converted text)
	term := byte('\n') // the byte that ends a line in this convention
	conv := vInt("conv", 0, 2)
	if conv != 0 {
		nl := "\r\n"
		if conv == 2 {
			nl, term = "\r", '\r'
		}
		root = strings.ReplaceAll(root, "\n", nl)
		holderText = strings.ReplaceAll(holderText, "\n", nl)
		for k, v := range files {
			files[k] = strings.ReplaceAll(v, "\n", nl)
		}
	}
	_, je := vBuildProject(root, files)
	vAssert(je != nil, "c07-invalid-body-accepted")
	want := strings.Index(holderText, needle)
	if mode == 1 && strings.Contains(k.before, "  Path\n") {
		// the path-variable checks inspect the referenced types after all bodies were compiled
		// and report at the keyword of the Path directive
		want = strings.Index(holderText, "  Path") + 2
	}
	vAssert(strings.HasSuffix(je.File.Name(), "/"+holder), "c07-body-error-in-wrong-file")
	vAssert(int(je.Index) == want, "c07-body-error-index")
	vAssert(int(je.Line) == 1+strings.Count(holderText[:want], string([]byte{term})), "c07-body-error-line")
	ls := strings.LastIndexByte(holderText[:want], term) + 1
	vAssert(int(je.Column) == want-ls+1, "c07-body-error-column")
	le := strings.IndexByte(holderText[want:], term)
	quote := strings.TrimLeft(holderText[ls:want+le], " \t")
	if conv == 1 {
		quote = strings.TrimSuffix(quote, "\r")
	}
	vAssert(je.Quote == quote, "c07-body-error-quote")
	// the include trace: none for a body of the root file; for a body in the INCLUDEd file the error's
	// own place and the INCLUDE of the root file (line 4) that was followed
	trace := vTraceLines(je.Error())
	if place == 1 {
		vAssert(len(trace) == 2, "c07-body-error-include-trace-length")
		vAssert(strings.HasPrefix(trace[0], "b.jst:"), "c07-body-error-include-trace-entry-0")
		vAssert(trace[1] == "root.jst:4", "c07-body-error-include-trace-entry-1")
	} else {
		vAssert(len(trace) == 0, "c07-body-error-trace-without-include")
	}
	vReach("body-error-located")
	vObserve("err", int(je.Index), int(je.Line), int(je.Column))
}

func init() { vRegister("HBodyError", HBodyError) }
