package catalog

import (
	"strconv"
	"strings"
)

// Deep digest of what the JSON emitter writes for a schema / an enum rule: the
// same data that MarshalJSON hands to encoding/json (content tree, rules, notes,
// used user types / enums, notation, regex pattern), rendered as one line.
// encoding/json itself (reflection) is outside the encoder; the structures it
// is given are not.

func vRuleDigest(sb *strings.Builder, r Rule) {
	sb.WriteString("(")
	sb.WriteString(r.Key)
	sb.WriteString(":")
	sb.WriteString(string(r.TokenType))
	if r.Note != "" {
		sb.WriteString(" note=" + strconv.Quote(r.Note))
	}
	switch r.TokenType {
	case RuleTokenTypeObject, RuleTokenTypeArray:
		for _, c := range r.Children {
			vRuleDigest(sb, c)
		}
	default:
		sb.WriteString(" =" + strconv.Quote(r.ScalarValue))
	}
	sb.WriteString(")")
}

// VRuleDigest renders a rule (an ENUM value list) as the emitter sees it.
func VRuleDigest(r Rule) string {
	var sb strings.Builder
	vRuleDigest(&sb, r)
	return sb.String()
}

func vContentDigest(sb *strings.Builder, c *ExchangeContent) {
	sb.WriteString("<")
	// C04: objects / arrays carry children and no scalar value, everything else a scalar value and no children
	switch c.TokenType {
	case "object", "array":
		if c.ScalarValue != "" {
			sb.WriteString("ILL-TYPED:container-with-scalar-value ")
		}
	case "":
		sb.WriteString("ILL-TYPED:node-without-token-type ")
	default:
		if len(c.Children) != 0 {
			sb.WriteString("ILL-TYPED:scalar-with-children ")
		}
	}
	if c.Key != nil {
		sb.WriteString(strconv.Quote(*c.Key) + " ")
	}
	sb.WriteString(c.TokenType + "/" + c.Type)
	if c.IsKeyUserTypeRef {
		sb.WriteString(" keyref")
	}
	if c.Optional {
		sb.WriteString(" optional")
	}
	if c.InheritedFrom != "" {
		sb.WriteString(" from=" + c.InheritedFrom)
	}
	if c.Note != "" {
		sb.WriteString(" note=" + strconv.Quote(c.Note))
	}
	if c.Rules != nil && c.Rules.Len() != 0 {
		sb.WriteString(" rules=")
		for _, r := range c.Rules.data {
			vRuleDigest(sb, r)
		}
	}
	switch c.TokenType {
	case "object", "array":
		for _, ch := range c.Children {
			vContentDigest(sb, ch)
		}
	default:
		sb.WriteString(" =" + strconv.Quote(c.ScalarValue))
	}
	sb.WriteString(">")
}

// VSchemaDigest renders an exchange schema as the emitter sees it; an error of the
// emitter's own compilation step is rendered as "error:<text>".
func VSchemaDigest(s ExchangeSchema) string {
	switch e := s.(type) {
	case *ExchangeJSightSchema:
		if e == nil {
			return "nil"
		}
		if err := e.Compile(); err != nil {
			return "error:" + err.Error()
		}
		var sb strings.Builder
		sb.WriteString("jsight ")
		vContentDigest(&sb, e.exchangeContent)
		if e.exchangeUsedUserTypes != nil && e.exchangeUsedUserTypes.Len() > 0 {
			sb.WriteString(" types=" + strings.Join(e.exchangeUsedUserTypes.Data(), ","))
		}
		if e.exchangeUsedUserEnums != nil && e.exchangeUsedUserEnums.Len() > 0 {
			sb.WriteString(" enums=" + strings.Join(e.exchangeUsedUserEnums.Data(), ","))
		}
		return sb.String()
	case *ExchangeRegexSchema:
		p, err := e.Pattern()
		if err != nil {
			return "error:" + err.Error()
		}
		return "regex " + strconv.Quote(p)
	case ExchangeRegexSchema:
		p, err := e.Pattern()
		if err != nil {
			return "error:" + err.Error()
		}
		return "regex " + strconv.Quote(p)
	case *ExchangePseudoSchema:
		return "pseudo " + string(e.notation)
	case ExchangePseudoSchema:
		return "pseudo " + string(e.notation)
	case nil:
		return "nil"
	}
	return "?"
}

// VUsedNames returns the usedUserTypes / usedUserEnums lists the emitter writes for a
// schema (nil, nil for schemas that have none); err is the emitter's own compile error.
func VUsedNames(s ExchangeSchema) (types, enums []string, err error) {
	e, ok := s.(*ExchangeJSightSchema)
	if !ok || e == nil {
		return nil, nil, nil
	}
	if err := e.Compile(); err != nil {
		return nil, nil, err
	}
	if e.exchangeUsedUserTypes != nil {
		types = e.exchangeUsedUserTypes.Data()
	}
	if e.exchangeUsedUserEnums != nil {
		enums = e.exchangeUsedUserEnums.Data()
	}
	return types, enums, nil
}

// VSchemaEmit renders everything MarshalJSON of a schema hands to encoding/json,
// the example included (computed the way MarshalJSON computes it).
func VSchemaEmit(s ExchangeSchema) string {
	d := VSchemaDigest(s)
	switch e := s.(type) {
	case *ExchangeJSightSchema:
		if e != nil && !e.disableExchangeExample {
			ex, err := e.Example()
			if err != nil {
				return d + " example-error:" + err.Error()
			}
			return d + " example=" + strconv.Quote(string(ex))
		}
	case *ExchangeRegexSchema:
		ex, err := e.Example()
		if err != nil {
			return d + " example-error:" + err.Error()
		}
		return d + " example=" + strconv.Quote(string(ex))
	case ExchangeRegexSchema:
		ex, err := e.Example()
		if err != nil {
			return d + " example-error:" + err.Error()
		}
		return d + " example=" + strconv.Quote(string(ex))
	}
	return d
}
