#!/bin/sh
# regenerate zz_verif_rt.go in every harness package from rt.go.tmpl
cd "$(dirname "$0")"
for d in */; do
  p=${d%/}
  [ -f "$p/PKGNAME" ] && n=$(cat "$p/PKGNAME") || n=$(basename "$p")
  sed "s/^package PKG$/package $n/" rt.go.tmpl > "$p/zz_verif_rt.go"
done
