#!/bin/sh
# regenerate zz_verif_rt.go / zz_verif_replay_test.go in every harness package
cd "$(dirname "$0")"
for d in */; do
  p=${d%/}
  n=$(basename "$p")
  sed "s/^package PKG$/package $n/" rt.go.tmpl > "$p/zz_verif_rt.go"
  sed "s/^package PKG$/package $n/" replay_test.go.tmpl > "$p/zz_verif_replay_test.go"
  sed "s/^package PKG$/package $n/" json.go.tmpl > "$p/zz_verif_json.go"
done
