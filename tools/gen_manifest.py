#!/usr/bin/env python3
"""Regenerates /verif/MANIFEST.json from the table below (kept in one place so the manifest stays valid)."""
import json, subprocess
props=[json.loads(l) for l in open('/verif/properties.jsonl')]
NA={
 'C04':'deciding code is encoding/json (reflection) and jsight-schema-core lazy AST/example generation behind ToJson; reflection cannot be encoded by the SSA-level symbolic engine (DESIGN.md §5)',
 'C15':'order-(in)dependence is decided by AddType/Check/UsedUserTypes inside jsight-schema-core over whole documents; a bounded symbolic harness over document permutations is out of reach (DESIGN.md §5)',
 'C16':'depends on encoding/json (reflection) for every accessor and on the time-seeded regex example generator; not encodable (DESIGN.md §5)',
 'C17':'catalog/ser/openapi is driven by reflection-based JSON marshalling and jsight-schema-core/openapi; not encodable (DESIGN.md §5)',
 'C18':'the engine is sequential; goroutine scheduling / the Go memory model have no encoding available in this sandbox (DESIGN.md §5)',
}
COMMON_TRUST="Trusted: go/ssa translation (x/tools v0.29.0), the symgo interpreter (validated on every run by replaying every path witness natively, and by the 1108-file corpus differential `bin/vcheck SELFTEST`), z3 5.1.0 as deciding solver (sampled queries re-decided by z3 4.8.12 and cvc5 1.0)."
C={}
C['C13']=("Bounded symbolic execution of the real scanner SSA (scanner.Next, directive.NewDirectiveType, IsStartWithDirective) against a frozen keyword specification: every byte string of <=13 bytes after a directive-start position (all 256 values per byte) is covered by solver-derived paths; each path's assertions are discharged as SMT queries and each path witness is replayed natively.",
 "Bounds: <=13 bytes after the directive start, input ends after the deciding byte; quick = file start, thorough = 9 start contexts. Stubs: jerr.NewLocation by contract, DecodeRune on the concrete witness. "+COMMON_TRUST,
 "concolic symbolic execution of go/ssa + SMT (z3) branch/assertion queries, differential against frozen keyword spec","§4 C13")
C['C01']=("Every Go run-time check, explicit panic, step/recursion budget on every path of the real build (scanner, directive tree, INCLUDE via a virtual file system, MACRO/PASTE, catalog construction incl. jsight-schema-core's own SSA) is a branch whose panic side the solver must refute; inputs: all root files <=4/5 bytes, 2/3 arbitrary bytes after 55 state-witness prefixes, macro graphs <=3, include graphs, missing/dir/empty root.",
 "Bounds as listed in evidence.assumptions; longer inputs, OS failures other than not-exist/is-directory, memory exhaustion are outside. Stubs: virtual FS; NewLocation contract (proved in the same run); regexp/time/mail/json on concrete operands natively. "+COMMON_TRUST,
 "concolic symbolic execution of go/ssa; panic/unwinding sides of all runtime checks decided by SMT (z3); native replay of counterexamples","§4 C01")
C['C07']=("jerr.NewLocation (+ dependency LineAndColumn/BeginningOfLine/EndOfLine/quote) executed symbolically for all file contents <=5/8 bytes, all indices and three line-ending conventions against a reference line/column/quote; the same jobs establish the never-panics contract other checks rely on.",
 "Bounds: content <=5 (quick) / 8 (thorough) bytes; mixed line endings and >200-byte lines outside. Include-trace part (C07-c) see DESIGN.md. "+COMMON_TRUST,
 "concolic symbolic execution of go/ssa + SMT (z3), differential against reference location function","§4 C07")
C['C14']=("validateIncludeFileName for all names <=5/7 bytes (256 values per byte) against the reference safe-name predicate; the whole INCLUDE path (scanner, processInclude, filepath.Join/Dir from the stdlib SSA, virtual FS with decoys) for names <=3/4 bytes with every path handed to the FS asserted inside the includer's directory; include graphs with symbolic targets (cycles, repeats, missing, directory).",
 "Bounds as in evidence.assumptions; symlinks / case-folding / Windows separators outside. "+COMMON_TRUST,
 "concolic symbolic execution of go/ssa + SMT (z3); file system as logged nondeterministic stub","§4 C14")
C['C12']=("scanner.Next executed symbolically on every file <=4/5 bytes and on 2/3 arbitrary bytes after 61 state-witness prefixes: errors inside the file; lexemes inside the file, ordered, non-overlapping, and accepted by the per-directive lexeme grammar automaton; plus exactness: rendered directive lines with symbolic parameter/annotation fields yield exactly the rendered extents and bytes.",
 "Bounds in evidence.assumptions; body extents come from jsight-schema-core (executed from its SSA). Stubs: NewLocation contract, DecodeRune on the witness. "+COMMON_TRUST,
 "concolic symbolic execution of go/ssa + SMT (z3); lexeme-grammar automaton and template extents as assertions","§4 C12")
C['C11']=("The real processContext/closeLastExplicitContext/processEOF driven with symbolic directive kinds (all 31), Path and '(' flags and ')' events; implementation and a frozen context-table stack automaton must agree on accept/reject, rejecting event, error class, error location and every parent link, for every sequence of <=2 (quick) / 3 (thorough) events.",
 "Bounds: <=2/3 events + EOF. Reference table hand-transcribed (harness/core/zz_verif_spec.go). "+COMMON_TRUST,
 "concolic symbolic execution of go/ssa with symbolic directive kinds + SMT (z3), differential against reference automaton","§4 C11")
C['C10']=("Relational symbolic execution: a directive run scanned in place vs. the same run moved into MACRO @m ( ... ) and called by PASTE @m (prefix/body kinds and flags symbolic over all 31 kinds) must produce the same tree after the real collectMacro/checkMacroForRecursion/processPaste; macro call graphs with symbolic PASTE targets: every cycle is a recursion error, undefined targets are macro-not-found, acyclic graphs are accepted.",
 "Bounds: prefix <=1, body <=1 (quick) / 2 (thorough) directives; <=3 macros. Catalog equality is inferred from tree equality (later phases read only directivesWithPastes). "+COMMON_TRUST,
 "concolic symbolic execution of go/ssa + SMT (z3), two-run relational harness","§4 C10")
C['C19']=("Three fixed projects built with a symbolic banned pair {b1,b2} over all 31 kinds (solver enumerates all pairs): a banned kind occurring anywhere in the project text (also only inside an unused MACRO body, only inside an INCLUDEd file, and INCLUDE/MACRO/PASTE themselves) => not-allowed error located on a keyword of a banned kind; otherwise the build equals the build without the option.",
 "Bounds: 3 fixture projects x all pairs of kinds. "+COMMON_TRUST,
 "concolic symbolic execution of go/ssa + SMT (z3) over the banned-set parameters","§4 C19")
C['C08']=("Two-run relational symbolic execution of the whole build: 5 skeleton projects vs. rewrites that the language defines as insignificant — LF/CRLF/CR, uniform indentation by symbolic blanks, symbolic trailing blanks, symbolic blank/comment lines and trailing comments at every legal site, quoting a bare parameter (symbolic content), // vs /* */ (symbolic content), implicit vs explicit ( ) context (symbolic choice), Description text layout (unit harness over symbolic lines). Equal catalog digest, or same error class with the error moved by the inserted length.",
 "Bounds: 5 skeletons; 2/3 symbolic trivia bytes per site (every 3rd site in the quick tier); description lines over a 5-symbol alphabet. Catalog equality is checked on an in-package digest (entities, order, names, annotations, descriptions, schema text), not on the JSON bytes (encoding/json is outside the engine). "+COMMON_TRUST,
 "concolic symbolic execution of go/ssa + SMT (z3), two-run relational harness over layout rewrites","§4 C08")
C['C09']=("Two-run relational symbolic execution: skeleton project vs. the same project with a run of directive blocks (symbolic cut position, 1..3/8 blocks, depth 1 and 2) moved into an INCLUDEd file through the real scanner stack / processInclude / virtual file system; symbolic line end after INCLUDE and tail of the included file. Equal catalog digest, or the same error class located in the file that now holds the directive.",
 "Bounds: 5 skeletons, cuts at directive boundaries, include depth <= 2. Catalog equality on the in-package digest (see C08). "+COMMON_TRUST,
 "concolic symbolic execution of go/ssa + SMT (z3), two-run relational harness over include splits","§4 C09")
C['C02']=("Model round-trip with symbolic model features: an abstract API model (INFO, SERVER, TAG, TYPE, ENUM, 1..2 HTTP interactions with annotation/description/query/request/responses/headers/tags/OperationId) is rendered to JSight text (URL grouping or stand-alone, explicit or implicit contexts, // or /* */), built by the real code, and the catalog digest must equal the digest computed from the model alone; 8-10 feature choices per job are symbolic (all combinations explored), the others fixed by seed.",
 "Bounds: <=2 interactions, HTTP only, feature combinations beyond the symbolic subset of a job are outside; equality on the in-package digest, not the JSON bytes (encoding/json is outside the engine). "+COMMON_TRUST,
 "concolic symbolic execution of go/ssa + SMT (z3) over model feature choices, differential against a model-derived expected catalog","§4 C02")
C['C03']=("Fault injection with symbolic fault class, placement and names: 28 fault classes x {root file, INCLUDEd file, pasted MACRO body} must be rejected with the message of the class on the file and line of the offending directive (real NewLocation); a directive with a symbolic 2-byte name is a duplicate exactly when the solver makes the name equal to the existing one; JSIGHT missing / not first / wrong (symbolic) version.",
 "Bounds: one base document per harness, the catalogue of fault classes in harness/core/zz_verif_c03.go; rule/example mismatches inside schemas belong to jsight-schema-core. "+COMMON_TRUST,
 "concolic symbolic execution of go/ssa + SMT (z3) over fault class / placement / name bytes","§4 C03")
C['C05']=("Closure invariants asserted on the catalog structs of every accepted document of several symbolic document families (TAG/Tags model with symbolic tag choices incl. repeated and undeclared tags; representative documents with 2-byte symbolic holes; INCLUDE-split and MACRO/PASTE rewrites): interaction key == id == protocol/method/path, tag <-> interaction relation exact and single, pathVariables iff {parameters}, response codes/body, JSIGHT 0.3.",
 "Bounds as in evidence.assumptions; usedUserTypes/usedUserEnums and the JSON rendering are outside (jsight-schema-core / encoding/json). "+COMMON_TRUST,
 "concolic symbolic execution of go/ssa + SMT (z3); catalog invariants as assertions","§4 C05")
C['C06']=("Each project is built with insertion-ordered maps and again with ONE range-over-map site (numbered in execution order, repository and jsight-schema-core alike) iterating in a symbolic order (Lehmer-coded permutation <=4 entries, rotation+reversal above); the solver searches for an order that changes accept/reject, message, file, index, include trace or the catalog digest. Plus a static SSA scan of nondeterminism sources.",
 "Bounds: one perturbed site at a time; 8-10 projects; interactions of two sites, cross-process effects other than map order and encoding/json are outside. Counterexamples are confirmed natively by rebuilding 200 times. "+COMMON_TRUST,
 "concolic symbolic execution of go/ssa with symbolic map iteration order + SMT (z3), two-run comparison; static SSA scan","§4 C06")
checks=[]
for pid in sorted(C):
    text,note,tech,design=C[pid]
    checks.append({"property_id":pid,"quick_cmd":f"bin/vcheck {pid} --tier quick","thorough_cmd":f"bin/vcheck {pid} --tier thorough",
      "evidence_file":f"/verif/evidence/{pid}.json","replay_cmd_template":f"bin/vcheck {pid} --replay {{path}}","engine":"symgo",
      "level_claimed":{"category":"model_checking","text":text,"design_ref":design},"level_note":note,"technique":tech})
claimed=set(C)
na=[]
for p in props:
    if p['id'] in claimed: continue
    if p['id'] in NA: na.append({"property_id":p['id'],"reason":NA[p['id']]})
    else: na.append({"property_id":p['id'],"reason":"check under construction in this session (engine exists; harness not yet registered)"})
fixes=subprocess.check_output(['git','-C','/repo','log','--format=%h','8f6583a..HEAD']).decode().split()
m={"version":1,
 "setup_cmd":"cd /verif/engine && GOFLAGS=-mod=mod GOPROXY=off GOSUMDB=off GOTOOLCHAIN=local go build -o /verif/bin/vcheck ./cmd/vcheck && /verif/bin/vcheck SELFTEST",
 "hooks":{"guard":"verif","enable":"no source hooks: harness files (/verif/harness/<pkg>/zz_verif_*.go) are injected through go/packages Overlay and `go test -overlay`; nothing under /repo is modified by the checks","baseline_off_cmd":"cd /repo && go test -vet=off -count=1 -timeout 25m ./...","source_commits":[],"add_only":True},
 "engines":[{"name":"symgo","path":"/verif/engine","serves_properties":sorted(claimed),"kind_free_text":"own concolic symbolic executor over go/ssa (x/tools v0.29.0): concrete shadow + SMT bit-vector terms, generational search with constraint independence, z3 -in for branch feasibility and assertion queries, native replay of every path witness"}],
 "checks":checks,
 "notes":"All checks rebuild the encoding from /repo's working tree on every run (go/packages + go/ssa with harness overlay). exit 0 = held on everything explored (KNOWN-FINDING lines allowed); exit 1 = confirmed VIOLATION; exit 2 = check inconclusive (never on registered bounds of the unchanged tree). Repairs of genuine defects in /repo are the unguarded 'fix:' commits "+", ".join(fixes)+" (see known_findings.json).",
 "not_applicable":na}
json.dump(m,open('/verif/MANIFEST.json','w'),indent=1)
print("claimed:",sorted(claimed))
