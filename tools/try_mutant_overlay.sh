#!/bin/sh
# usage: try_mutant_overlay.sh <patch.diff> <tier> <prop>...
# Like try_mutant.sh but leaves /repo untouched: the patch is applied in a scratch worktree and the
# changed files are laid over /repo through the harness overlay (/verif/harness/<path>) for the
# duration of the checks. Safe to use while another process reads /repo.
patch=$1; tier=$2; shift 2
wt=/tmp/wt_mutov
export GOFLAGS=-mod=mod GOPROXY=off GOSUMDB=off
[ -d $wt ] || git -C /repo worktree add --detach $wt HEAD >/dev/null 2>&1 || { echo "cannot create worktree"; exit 2; }
cd $wt && git checkout -q --detach $(git -C /repo rev-parse HEAD) && git reset -q --hard
git apply "$patch" 2>/tmp/apply.err || git apply --3way "$patch" 2>>/tmp/apply.err || { echo "PATCH DOES NOT APPLY"; cat /tmp/apply.err; git reset -q --hard; exit 3; }
go build ./... || { echo "MUTANT DOES NOT BUILD"; git reset -q --hard; exit 3; }
files=$(git diff --name-only HEAD; git ls-files --others --exclude-standard | grep '\.go$' | grep -v '^mutants/')
copied=""
cleanup() { for f in $copied; do rm -f "/verif/harness/$f"; done; cd $wt && git reset -q --hard; git clean -fdq; }
trap cleanup EXIT INT TERM
for f in $files; do
  case "$f" in *_test.go|mutants/*) continue;; esac
  [ -e "/verif/harness/$f" ] && { echo "overlay clash: $f"; exit 2; }
  mkdir -p "/verif/harness/$(dirname $f)"
  cp "$wt/$f" "/verif/harness/$f"; copied="$copied $f"
done
cd /verif
for p in "$@"; do
  out=/tmp/mutov_$p.out
  bin/vcheck $p --tier $tier > $out 2>&1; code=$?
  echo "== $p exit=$code"; grep -h "^VIOLATION\|^KNOWN\|^INCONCLUSIVE" $out | cut -c1-300 | head -6; grep -A1 "^VIOLATION" $out | grep -v "^VIOLATION\|^--" | cut -c1-400 | head -3
done
git -C /verif checkout -- evidence 2>/dev/null
