#!/bin/sh
# usage: confirm_mutant.sh <worktree> <mutant-dir>  — confirms: patch applies, builds, full suite passes, demo fails with patch, demo passes without.
wt=$1; md=$2
export GOFLAGS=-mod=mod GOPROXY=off GOSUMDB=off
cd $wt || exit 2
git checkout -q -- . 
place=$(head -1 $md/demo_test.go | sed -n 's|.*place in: *\([a-zA-Z0-9_/]*\).*|\1|p'); place=${place%/}
[ -z "$place" ] && place=kit
git apply $md/patch.diff || { echo "APPLY-FAIL"; exit 3; }
go build ./... || { echo "BUILD-FAIL"; git checkout -q -- .; exit 3; }
if go test -count=1 ./... >/tmp/cm_suite.out 2>&1; then suite=pass; else suite=FAIL; fi
cp $md/demo_test.go $place/zz_demo_test.go
if timeout 300 go test -count=1 ./$place/ -run . >/tmp/cm_demo1.out 2>&1; then with=pass; else with=fail; fi
rm -f $place/zz_demo_test.go
git checkout -q -- .
cp $md/demo_test.go $place/zz_demo_test.go
if timeout 300 go test -count=1 ./$place/ -run . >/tmp/cm_demo2.out 2>&1; then without=pass; else without=fail; fi
rm -f $place/zz_demo_test.go
git checkout -q -- .
echo "suite_with_patch=$suite demo_with_patch=$with demo_without_patch=$without place=$place"
