#!/bin/sh
# usage: try_mutant.sh <patch.diff> <tier> <prop>...   — applies the patch to /repo, runs the checks, reverts.
patch=$1; tier=$2; shift 2
cd /repo || exit 2
git diff --quiet || { echo "/repo not clean"; exit 2; }
git apply "$patch" 2>/tmp/apply.err || git apply --3way "$patch" 2>>/tmp/apply.err || { echo "PATCH DOES NOT APPLY"; cat /tmp/apply.err; git reset -q --hard HEAD; exit 3; }
git reset -q 2>/dev/null
(export GOFLAGS=-mod=mod GOPROXY=off GOSUMDB=off; go build ./... ) || { echo "MUTANT DOES NOT BUILD"; git checkout -- .; git clean -fdq; exit 3; }
cd /verif
for p in "$@"; do
  out=/tmp/mut_$p.out
  bin/vcheck $p --tier $tier > $out 2>&1; code=$?
  echo "== $p exit=$code"; grep -h "^VIOLATION\|^KNOWN\|^INCONCLUSIVE" $out | cut -c1-300 | head -6; grep -A1 "^VIOLATION" $out | grep -v "^VIOLATION\|^--" | cut -c1-400 | head -3
done
cd /repo && git checkout -- . && git clean -fdq -e mutants
git -C /verif checkout -- evidence 2>/dev/null
